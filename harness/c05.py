"""C05 - a reply resolves exactly the request it answers.

Implementation side: a real LanguageServerProtocol on a private event loop with a recording
writer; frames go through the real `structure_message` (as json.loads object_hook, exactly as
pygls/io_.py does) and `handle_message`, inside the read loop's try/except so that calls of the
error hook are counted.  Model side: Model/Outgoing.v + Spec/OutgoingSpec.v via bin/c05_driver.
"""
import asyncio, itertools, json, logging, os, queue, subprocess, threading, time
import core
import priv

logging.disable(logging.CRITICAL)

# (method, code of its result class).  The result class per method is the harness's own table
# (lsprotocol's response classes by name), not pygls' get_result_type.
METHODS = [("workspace/applyEdit", 1), ("window/showDocument", 2), ("window/showMessageRequest", 3),
           ("workspace/configuration", 4), ("workspace/workspaceFolders", 5),
           ("window/workDoneProgress/create", 6), ("custom/echo", 0), ("custom/other", 0)]
RT_CLASS = {1: "ApplyWorkspaceEditResponse", 2: "ShowDocumentResponse", 3: "ShowMessageResponse",
            4: "ConfigurationResponse", 5: "WorkspaceFoldersResponse", 6: "WorkDoneProgressCreateResponse"}
MISSING = "__missing__"
PAYLOADS = [{"applied": True, "success": True, "title": "T"}, None, [{"uri": "file:///a", "name": "a"}],
            "str", 17, {"applied": False, "failureReason": "r"}, MISSING, [], {"title": "only"},
            {"success": False},
            {"start": {"line": 1, "ch": 2}, "end": {"line": 3, "ch": 4}, "tag": "x"},
            {"tag": "y", "end": {"ch": 40, "line": 30}, "start": {"ch": 20, "line": 10}},
            {"end": {"line": 300, "ch": 400}, "tag": "z", "start": {"ch": 200, "line": 100}}]
SHAPED = [10, 11, 12]      # one key set, three member orders: a decoded object must match BY NAME
MSGS = ["", "m", "Internal Error", "boom é\U0001F60B"]
ABSENT = "__absent__"
DATA = [ABSENT, {"k": [1, "x"]}, "d", 0, False, "", None, 1, -1.5, True, "text", [], [1], {},
        {"traceback": ["File x, line 1"]}, {"traceback": 5}, {"a": {"b": [1, {"c": None}], "traceback": None}}]
# one representative per class of codes: each registered exact code, the server range, outside
CODE_CLASSES = [-32603, -32602, -32600, -32601, -32700, -32800, -32000, -32050, -32099, 0, 1, -32100, -31999,
                2 ** 31 - 1]
CODES = [0, 1, -1, -32000, -32099, -32100, -31999, -32603, -32602, -32601, -32600, -32700, -32800,
         -32801, -32001, -32002, 2 ** 31, 2 ** 63, -2 ** 63 - 1, -32050, 2 ** 31 - 1, -2 ** 31, -2 ** 31 - 1]
CODES_INT32 = [c for c in CODES if -2 ** 31 <= c < 2 ** 31]
CLASS_NAMES = ["JsonRpcException", "JsonRpcInternalError", "JsonRpcInvalidParams", "JsonRpcInvalidRequest",
               "JsonRpcMethodNotFound", "JsonRpcParseError", "JsonRpcRequestCancelled", "JsonRpcServerError"]
GIVEN_IDS = [["i", 7], ["s", "7"], ["i", 0], ["s", ""], ["s", "a"], ["i", 2 ** 53], ["i", -1], ["s", "0"]]
STRAY_IDS = [["i", 99], ["s", "zz"], ["s", "99"], ["i", 1], ["n"], ["x", 0], ["x", 2], ["x", 4]]
# ids no send_request ever issues (["x", j]); 1.0 / 7.0 / false are NOT here: Python's dict conflates
# them with the int keys 1 / 7 / 0 (finding candidate F33), true only because 1 is never issued here
ODD_IDS = [7.5, -0.5, [1], {"a": [1]}, True, 1e300]
IN_EVENTS = ("inreply", "inasync", "indone", "incancel")

# ---------------------------------------------------------------- oracle (lsprotocol / cattrs)
_ORACLE = {}


def _converter():
    if "conv" not in _ORACLE:
        from lsprotocol import converters
        _ORACLE["conv"] = converters.get_converter()
    return _ORACLE["conv"]


def _is_namedtuple(v):
    return isinstance(v, tuple) and hasattr(v, "_fields")


def canon_value(v):
    """Canonical JSON-able form of a decoded result: class name + content."""
    import attrs
    if v is None or isinstance(v, (bool, int, float, str)):
        return {"cls": type(v).__name__, "v": v}
    if attrs.has(type(v)):
        return {"cls": type(v).__name__, "v": _converter().unstructure(v)}
    if _is_namedtuple(v):
        return {"cls": "object", "v": {k: canon_value(x) for k, x in v._asdict().items()}}
    if isinstance(v, dict):
        return {"cls": "object", "v": {k: canon_value(x) for k, x in v.items()}}
    if isinstance(v, (list, tuple)):
        return {"cls": "list", "v": [canon_value(x) for x in v]}
    return {"cls": type(v).__name__, "v": repr(v)}


def oracle(rt, p):
    """(structures?, canonical decoded value) of payload p under result class rt."""
    key = (rt, p)
    if key not in _ORACLE:
        from lsprotocol import types
        obj = {"jsonrpc": "2.0", "id": 1}
        if PAYLOADS[p] != MISSING:
            obj["result"] = json.loads(json.dumps(PAYLOADS[p]))
        if rt == 0:
            # generic response class: any payload, but the member has to be present
            _ORACLE[key] = (True, canon_value(obj["result"])) if "result" in obj else (False, None)
        else:
            try:
                r = _converter().structure(obj, getattr(types, RT_CLASS[rt]))
                _ORACLE[key] = (True, canon_value(r.result))
            except Exception:
                _ORACLE[key] = (False, None)
    return _ORACLE[key]


def oks_of(rt):
    return [p for p in range(len(PAYLOADS)) if oracle(rt, p)[0]]


def oks(p):
    return [rt for rt in range(0, 7) if oracle(rt, p)[0]]


# ---------------------------------------------------------------- encoding for the model driver
def zb(z):
    return "z" if z == 0 else ("p" if z > 0 else "n") + bin(abs(z))[2:]


def unzb(t):
    return 0 if t == "z" else (1 if t[0] == "p" else -1) * int(t[1:], 2)


def enc_str(s):
    cps = [ord(c) for c in s]
    return " ".join(map(str, [len(cps)] + cps))


def enc_id(r):
    if r[0] == "n":
        return "4"
    if r[0] == "x":
        return f"5 {r[1]}"
    if r[0] == "i":
        return f"1 {zb(r[1])}"
    if r[0] == "s":
        return f"2 {enc_str(r[1])}"
    return f"3 {r[1]}"


def cb_style(cb):
    """callback spec of a send: 0 none / 1 callback= / ["u", ops] callback= whose user code performs
    ops / ["d", ops] future.add_done_callback(...) whose user code performs ops.
    ops: ["c", h] cancel future h; ["s", mi, mid] send a follow-up (its callback: the rest)."""
    if not cb:
        return None, []
    if cb == 1:
        return "u", []
    return cb[0], cb[1]


def enc_cb(cb):
    style, ops = cb_style(cb)
    if style is None:
        return "0"
    out = ["1" if style == "u" else "2", str(len(ops))]
    for op in ops:
        if op[0] == "c":
            out.append(f"0 {op[1]}")
        else:
            out.append(f"1 {op[1]} {METHODS[op[1]][1]} " + ("0" if op[2] is None else "1 " + enc_id(op[2])))
    return " ".join(out)


def enc_ev(e):
    k = e[0]
    if k == "send":
        _, mi, cb, mid, _req = e[:5]
        return f"0 {mi} {METHODS[mi][1]} {enc_cb(cb)} " + ("0" if mid is None else "1 " + enc_id(mid))
    if k == "res":
        o = oks(e[2])
        return f"1 {enc_id(e[1])} {e[2]} {len(o)} " + " ".join(map(str, o))
    if k == "err":
        return f"2 {enc_id(e[1])} {zb(e[2])} {enc_str(MSGS[e[3]])} {e[4]}"
    if k == "cancel":
        return f"3 {e[1]}"
    if k == "inreply":
        return f"4 {enc_id(e[1])}"
    if k == "inasync":
        return f"5 {enc_id(e[1])}"
    if k == "indone":
        return f"6 {enc_id(e[1])} {int(bool(e[2]))}"
    if k == "incancel":
        return f"7 {enc_id(e[1])}"
    raise ValueError(k)


class Toks:
    def __init__(self, toks):
        self.t, self.i = toks, 0

    def tok(self):
        self.i += 1
        return self.t[self.i - 1]

    def int(self):
        return int(self.tok())

    def lst(self, f):
        return [f() for _ in range(self.int())]

    def string(self):
        return "".join(chr(c) for c in self.lst(self.int))

    def id(self):
        k = self.int()
        if k == 1:
            return ["i", unzb(self.tok())]
        if k == 2:
            return ["s", self.string()]
        if k == 4:
            return ["n"]
        if k == 5:
            return ["x", self.int()]
        return ["u", self.int()]

    def fstate(self):
        k = self.int()
        if k == 0:
            return [0]
        if k == 1:
            rt, p = self.int(), self.int()
            return [1, oracle(rt, p)[1]]
        if k == 2:
            c = self.int(); code = unzb(self.tok()); msg = self.string(); d = self.int()
            return [2, CLASS_NAMES[c], code, msg, canon_data(None if DATA[d] == ABSENT else DATA[d])]
        return [3]


def canon_data(d):
    return json.loads(json.dumps(d))


def sort_ids(l):
    return sorted(l, key=core.canon)


# ---------------------------------------------------------------- the real endpoint
class _Writer:
    """Recording writer.  `react` (one-shot) is called INSIDE write() with the request frame just
    written: the reactive-transport configuration (in-process pipe / loopback peer / a read loop
    that is faster than the sending thread): the reply is dispatched before send_request returns."""

    def __init__(self):
        self.frames = []
        self.react = None

    def write(self, data):
        frame = json.loads(data.decode("utf-8"))
        self.frames.append(frame)
        if self.react is not None and "method" in frame and "id" in frame:
            react, self.react = self.react, None
            react(frame)

    def close(self):
        pass


def method_params(mi):
    """Well-formed params for the request (they play no role in the property)."""
    from lsprotocol import types
    m = METHODS[mi][0]
    if m == "workspace/applyEdit":
        return types.ApplyWorkspaceEditParams(edit=types.WorkspaceEdit())
    if m == "window/showDocument":
        return types.ShowDocumentParams(uri="file:///a")
    if m == "window/showMessageRequest":
        return types.ShowMessageRequestParams(type=types.MessageType.Info, message="m")
    if m == "workspace/configuration":
        return types.ConfigurationParams(items=[])
    if m == "window/workDoneProgress/create":
        return types.WorkDoneProgressCreateParams(token="tok")
    if m == "workspace/workspaceFolders":
        return None
    return {"x": 1}


def table_keys(protocol):
    """The one place that looks at pygls' bookkeeping (the two tables are located by harness/priv.py)."""
    return list(priv.request_futures(protocol).keys()), list(priv.result_types(protocol).keys())


class Endpoint:
    """One LanguageServer + protocol + recording writer + hook counter + incoming handlers."""

    def __init__(self, loop):
        from pygls.lsp.server import LanguageServer
        self.loop = loop
        self.server = LanguageServer("c05", "v1")
        self.protocol = self.server.protocol
        self.error_handler = priv.error_handler(self.server)    # what the real call sites hand to the read loops
        self.writer = _Writer()
        self.protocol.set_writer(self.writer, include_headers=False)
        self.hooks = 0
        self.gates = {}
        srv = self

        def report(error, source):
            srv.hooks += 1
        self.server.report_server_error = report

        @self.server.feature("custom/in_sync")
        def _in_sync(params):
            return None

        @self.server.feature("custom/in_async")
        async def _in_async(params):
            g = srv.loop.create_future()
            srv.gates[params.g] = g
            ok = await g
            if not ok:
                raise ValueError("incoming handler failed")
            return None

    def feed(self, obj):
        """One frame, as the read loops of pygls/io_.py treat it."""
        from pygls.exceptions import JsonRpcException
        body = json.dumps(obj).encode("utf-8")
        try:
            message = json.loads(body, object_hook=self.protocol.structure_message)
            self.protocol.handle_message(message)
        except Exception as exc:
            self.error_handler(exc, JsonRpcException)

    def close(self):
        try:
            self.server.shutdown()
        except Exception:
            pass


async def _spin(n=6):
    for _ in range(n):
        await asyncio.sleep(0)


def _exc_detail(exc):
    import concurrent.futures
    if isinstance(exc, (asyncio.CancelledError, concurrent.futures.CancelledError)):
        return [3]
    return [2, type(exc).__name__, getattr(exc, "code", "?"), getattr(exc, "message", "?"),
            canon_data(getattr(exc, "data", "?"))]


class _Req:
    """One outgoing request and whoever waits for it."""

    def __init__(self, kind):
        self.kind = kind          # p(lain) / a(waiting coroutine) / t(hread blocked on result())
        self.fut = None           # what the requester holds: concurrent Future (p, t) or asyncio Future (a)
        self.calls = []
        self.task = None
        self.thread = None
        self.stop = threading.Event()
        self.sent = threading.Event()
        self.seen = None          # what the requester finally observed

    def state_detail(self):
        f = self.fut
        if f is None:
            return ["unsent"]
        if f.cancelled():
            return [3]
        if not f.done():
            return [0]
        exc = f.exception()
        if exc is not None:
            return _exc_detail(exc)
        return [1, canon_value(f.result())]


def frame_bytes(obj, n=0):
    body = json.dumps(obj).encode("utf-8")
    head = b"Content-Length: %d\r\n" % len(body)
    if n % 3 == 1:
        head += b"Content-Type: application/vscode-jsonrpc; charset=utf-8\r\n"
    return head + b"\r\n" + body


class _Pipe:
    """A blocking byte stream for pygls.io_.run (readline / read), fed by the script."""

    def __init__(self):
        self.buf = bytearray()
        self.cond = threading.Condition()
        self.eof = False
        self.waiting = False

    def feed(self, data):
        with self.cond:
            self.buf += data
            self.waiting = False
            self.cond.notify_all()

    def close(self):
        with self.cond:
            self.eof = True
            self.cond.notify_all()

    def _take(self, ready, cut):
        with self.cond:
            while not ready() and not self.eof:
                self.waiting = True
                self.cond.notify_all()
                self.cond.wait(0.05)
            n = cut()
            data = bytes(self.buf[:n])
            del self.buf[:n]
            return data

    def readline(self):
        return self._take(lambda: b"\n" in self.buf,
                          lambda: self.buf.index(b"\n") + 1 if b"\n" in self.buf else len(self.buf))

    def read(self, n):
        return self._take(lambda: len(self.buf) >= n, lambda: min(n, len(self.buf)))

    def wait_idle(self, timeout=5.0):
        with self.cond:
            self.cond.wait_for(lambda: self.waiting, timeout)


def reply_obj(real, rep):
    """The frame of a scripted reply ["res", p] / ["err", code, msg, data] for the id `real`."""
    obj = {"jsonrpc": "2.0", "id": real}
    if rep[0] == "res":
        if PAYLOADS[rep[1]] != MISSING:
            obj["result"] = PAYLOADS[rep[1]]
    else:
        err = {"code": rep[1], "message": MSGS[rep[2]]}
        if DATA[rep[3]] != ABSENT:
            err["data"] = DATA[rep[3]]
        obj["error"] = err
    return obj


def traced(case, evno):
    """Is the state after script event `evno` part of the observation?  Always, except in the
    histories with hundreds of requests (a state is O(k) there): every `trace_every`-th and the last."""
    every = case.get("trace_every")
    return not every or evno % every == 0 or evno == len(case["evs"]) - 1


async def _run_script(case, loop):
    import concurrent.futures, queue
    ep = Endpoint(loop)
    inbox = queue.Queue()
    # how the peer's frames reach the protocol: directly (structure_message + handle_message inside
    # the read loop's try), or as Content-Length frames through the real read loops of pygls/io_.py
    mode = case.get("stream")
    stop_event = threading.Event()
    nfed = [0]
    sreader = stask = pipe = sthread = None
    if mode == "a":
        from pygls.io_ import run_async
        sreader = asyncio.StreamReader()
        stask = loop.create_task(run_async(stop_event, sreader, ep.protocol, None, ep.error_handler))

        def deliver(obj):
            nfed[0] += 1
            sreader.feed_data(frame_bytes(obj, nfed[0]))
    elif mode == "s":
        from pygls.io_ import run as run_sync
        pipe = _Pipe()
        sthread = threading.Thread(target=run_sync, args=(stop_event, pipe, ep.protocol, None,
                                                          ep.error_handler), daemon=True)
        sthread.start()

        def deliver(obj):
            nfed[0] += 1
            with pipe.cond:
                pipe.waiting = False
            pipe.feed(frame_bytes(obj, nfed[0]))
            pipe.wait_idle()
    else:
        deliver = ep.feed
    proto = ep.protocol
    reqs, uuids, trace = [], [], []
    uuid_no = {}              # uuid -> its index in uuids (histories with hundreds of requests)
    hooks_out = 0
    ngate = [0]

    def real_id(r):
        if r[0] == "n":
            return None
        if r[0] == "x":
            return ODD_IDS[r[1]]
        if r[0] == "u":
            return uuids[r[1]] if r[1] < len(uuids) else f"unissued-uuid-{r[1]}"
        return r[1]

    def canon_id(x):
        if isinstance(x, str) and x in uuid_no:
            return ["u", uuid_no[x]]
        if isinstance(x, bool) or not isinstance(x, (int, str)):
            return ["?", repr(x)]
        return ["i", x] if isinstance(x, int) else ["s", x]

    def requests_written():
        return [f for f in ep.writer.frames if "method" in f and "id" in f]

    cb_errors = []

    def make_cb(ops, style, owner):
        """User code of a callback (style u: callback=, gets the result; d: add_done_callback, gets
        the future): it calls back into the protocol while the future is being settled."""
        def cb(arg):
            try:
                if style == "u":
                    owner.calls.append(canon_value(arg))
                for j, op in enumerate(ops):
                    if op[0] == "c":
                        if op[1] < len(reqs) and reqs[op[1]].fut is not None:
                            reqs[op[1]].fut.cancel()
                        continue
                    _, mi2, mid2 = op
                    rq2 = _Req("p")
                    reqs.append(rq2)
                    kw2 = {} if mid2 is None else {"msg_id": mid2[1]}
                    if style == "u":
                        rq2.fut = proto.send_request(METHODS[mi2][0], method_params(mi2),
                                                     callback=make_cb(ops[j + 1:], "u", rq2), **kw2)
                    else:
                        rq2.fut = proto.send_request(METHODS[mi2][0], method_params(mi2), **kw2)
                        rq2.fut.add_done_callback(make_cb(ops[j + 1:], "d", rq2))
                    return
            except BaseException as exc:       # the Future machinery would swallow it
                cb_errors.append(repr(exc))
        return cb

    try:
        for evno, e in enumerate(case["evs"]):
            k = e[0]
            h0 = ep.hooks
            if k == "send":
                _, mi, cb, mid, kind = e[:5]
                react = e[5] if len(e) > 5 else None
                if react is not None:
                    mode, rep = react

                    def on_request(frame, mode=mode, rep=rep):
                        obj = reply_obj(frame["id"], rep)
                        if mode == "w":
                            ep.feed(obj)                 # same thread, inside writer.write
                        else:
                            done = threading.Event()     # the read loop (main thread) dispatches it while
                            inbox.put((obj, done))       # the sending thread is still inside write
                            done.wait(10)
                    ep.writer.react = on_request
                method = METHODS[mi][0]
                params = method_params(mi)
                rq = _Req(kind)
                reqs.append(rq)
                before = len(requests_written())
                kw = {}
                if mid is not None:
                    kw["msg_id"] = mid[1]
                style, ops = cb_style(cb)
                ucb = make_cb(ops, style, rq) if style is not None else None
                if kind == "a":
                    async def waiter(rq=rq, method=method, params=params, kw=kw, ucb=ucb):
                        rq.fut = proto.send_request_async(method, params, **kw)
                        if ucb is not None:
                            rq.fut.add_done_callback(ucb)
                        return await rq.fut
                    rq.task = loop.create_task(waiter())
                    await _spin(2)
                else:
                    if style == "u":
                        kw["callback"] = ucb
                    if kind == "t":
                        def blocked(rq=rq, method=method, params=params, kw=kw, style=style, ucb=ucb):
                            try:
                                rq.fut = proto.send_request(method, params, **kw)
                                if style == "d":
                                    rq.fut.add_done_callback(ucb)
                            finally:
                                rq.sent.set()
                            while True:
                                try:
                                    rq.seen = [1, canon_value(rq.fut.result(timeout=0.02))]
                                    return
                                except concurrent.futures.TimeoutError:
                                    if rq.stop.is_set() and not rq.fut.done():
                                        rq.seen = [0]
                                        return
                                except BaseException as exc:
                                    rq.seen = _exc_detail(exc)
                                    return
                        rq.thread = threading.Thread(target=blocked, daemon=True)
                        rq.thread.start()
                        for _ in range(2000):
                            if rq.sent.wait(0.005):
                                break
                            try:
                                obj, done = inbox.get_nowait()
                            except queue.Empty:
                                continue
                            ep.feed(obj)
                            done.set()
                    else:
                        rq.fut = proto.send_request(method, params, **kw)
                        if style == "d":
                            rq.fut.add_done_callback(ucb)
                written = requests_written()
                if mid is None and len(written) > before:
                    uuid_no.setdefault(written[before]["id"], len(uuids))
                    uuids.append(written[before]["id"])      # (follow-ups sent by callbacks come after it)
            elif k == "res":
                deliver(reply_obj(real_id(e[1]), ["res", e[2]]))
            elif k == "err":
                deliver(reply_obj(real_id(e[1]), ["err", e[2], e[3], e[4]]))
            elif k == "cancel":
                if e[1] < len(reqs) and reqs[e[1]].fut is not None:
                    reqs[e[1]].fut.cancel()
            elif k == "inreply":
                deliver({"jsonrpc": "2.0", "id": real_id(e[1]), "method": "custom/in_sync", "params": {}})
            elif k == "inasync":
                g = ngate[0]; ngate[0] += 1
                deliver({"jsonrpc": "2.0", "id": real_id(e[1]), "method": "custom/in_async", "params": {"g": g}})
                await _spin(5)
                ep.gates[("id", core.canon(e[1]))] = ep.gates.get(g)
            elif k == "indone":
                g = ep.gates.pop(("id", core.canon(e[1])), None)
                if g is not None and not g.done():
                    g.set_result(bool(e[2]))
            elif k == "note":
                # an incoming notification nobody handles whose params have the shape of a payload
                deliver({"jsonrpc": "2.0", "method": "custom/note", "params": PAYLOADS[e[1]]})
            elif k == "incancel":
                deliver({"jsonrpc": "2.0", "method": "$/cancelRequest", "params": {"id": real_id(e[1])}})
            ep.writer.react = None
            await _spin()
            if k not in IN_EVENTS:
                hooks_out += ep.hooks - h0
            if not traced(case, evno):
                continue
            fk, rk = table_keys(proto)
            trace.append([[[rq.state_detail()[0], len(rq.calls)] for rq in reqs], hooks_out,
                          len(requests_written()), sort_ids([canon_id(x) for x in fk]),
                          sort_ids([canon_id(x) for x in rk])])
        # the requesters' own view
        for rq in reqs:
            rq.stop.set()
        for rq in reqs:
            if rq.thread is not None:
                rq.thread.join(10)
        await _spin()
        seen = []
        for rq in reqs:
            if rq.kind == "t":
                seen.append(rq.seen if rq.seen is not None else ["thread-stuck"])
            elif rq.kind == "a":
                t = rq.task
                if t.cancelled():
                    seen.append([3])
                elif not t.done():
                    seen.append([0])
                elif t.exception() is not None:
                    seen.append(_exc_detail(t.exception()))
                else:
                    seen.append([1, canon_value(t.result())])
            else:
                seen.append(rq.state_detail())
        final = [[rq.state_detail(), len(rq.calls)] for rq in reqs]
        # a callback must have been handed the future's own result
        for rq, (d, n) in zip(reqs, final):
            for c in rq.calls:
                if d[0] != 1 or c != d[1]:
                    final[reqs.index(rq)] = [d, n, "callback-got-foreign-value"]
        out = [[canon_id(f["id"]), f["method"]] for f in requests_written()]
        if cb_errors:
            return ["raise", "callback-user-code", cb_errors[:2]]
        return {"trace": trace, "final": final, "seen": seen, "out": out}
    finally:
        for rq in reqs:
            rq.stop.set()
            if rq.task is not None and not rq.task.done():
                rq.task.cancel()
        for g in list(ep.gates.values()):
            if g is not None and not g.done():
                g.cancel()
        await _spin(3)
        if sreader is not None:
            sreader.feed_eof()
            try:
                await asyncio.wait_for(stask, 2)
            except BaseException:
                pass
        if pipe is not None:
            pipe.close()
            sthread.join(2)
        ep.close()


# ---------------------------------------------------------------- a real stdio server (subprocess)
def _frame_reader(out, q):
    try:
        while True:
            n = None
            while True:
                line = out.readline()
                if not line:
                    q.put(None); return
                if line.strip() == b"":
                    break
                if line.lower().startswith(b"content-length:"):
                    n = int(line.split(b":")[1])
            q.put(json.loads(out.read(n)))
    except Exception:
        q.put(None)


def run_stdio(case):
    """k `@server.thread()` handlers of a REAL stdio server (harness/servers/c05_server.py) each send a
    request to the peer and block on future.result(timeout); once all k are blocked the harness (the peer)
    answers them in the order of the script; each handler reports what its future gave it."""
    evs = case["evs"]
    k = sum(1 for e in evs if e[0] == "send")
    env = dict(os.environ, PYTHONPATH=core.REPO, PYTHONHASHSEED="0", C05_TIMEOUT="4")
    script = os.path.join(core.ROOT, "harness", "servers", "c05_server.py")
    p = subprocess.Popen([core.PY, script], stdin=subprocess.PIPE, stdout=subprocess.PIPE,
                         stderr=subprocess.DEVNULL, env=env)
    q = queue.Queue()
    threading.Thread(target=_frame_reader, args=(p.stdout, q), daemon=True).start()

    def put(obj):
        p.stdin.write(frame_bytes(obj)); p.stdin.flush()
    try:
        for j in range(k):
            put({"jsonrpc": "2.0", "id": 100 + j, "method": "t/ask", "params": {"q": j}})
        asks, deadline = {}, time.time() + 8
        while len(asks) < k:
            try:
                f = q.get(timeout=max(0.05, deadline - time.time()))
            except queue.Empty:
                return {"final": ["only %d of %d handlers got to send their request" % (len(asks), k)], "stdio": True}
            if f is None:
                return ["raise", "server-exited"]
            if f.get("method") == "peer/ask":
                asks[f["params"]["q"]] = f["id"]
        for e in evs:
            if e[0] in ("res", "err"):
                rep = ["res", e[2]] if e[0] == "res" else ["err", e[2], e[3], e[4]]
                put(reply_obj(asks[e[1][1]], rep))
        got, deadline = {}, time.time() + 8
        while len(got) < k:
            try:
                f = q.get(timeout=max(0.05, deadline - time.time()))
            except queue.Empty:
                break
            if f is None:
                return ["raise", "server-exited"]
            if "id" in f and "method" not in f and isinstance(f["id"], int):
                got[f["id"] - 100] = f.get("result", {"exc": "error-reply", "code": (f.get("error") or {}).get("code")})
        final = []
        for j in range(k):
            r = got.get(j)
            if r is None:
                final.append([["no-answer"], 0])
            elif r.get("exc") is None:
                final.append([[1, canon_value(r["res"])], 0])
            elif r["exc"] in ("TimeoutError", "CancelledError"):
                final.append([[0] if r["exc"] == "TimeoutError" else [3], 0])
            else:
                final.append([[2, r["exc"], r.get("code"), r.get("message"), canon_data(r.get("data"))], 0])
        return {"final": final, "stdio": True}
    except Exception as ex:
        return ["raise", type(ex).__name__]
    finally:
        try:
            p.kill()
        except Exception:
            pass
        p.wait()


def run_case(case):
    loop = asyncio.new_event_loop()
    try:
        return loop.run_until_complete(asyncio.wait_for(_run_script(case, loop), 30))
    except Exception as ex:
        return ["raise", type(ex).__name__]
    finally:
        try:
            loop.run_until_complete(loop.shutdown_asyncgens())
        except Exception:
            pass
        loop.close()


# ---------------------------------------------------------------- well-formed scripts
def wellformed(case):
    """Scripts the harness can realise: responses / cancels refer to what exists, an incoming
    async request is finished at most once, and only while it is alive."""
    nsend, nuu, live = 0, 0, set()
    # callbacks of an asyncio future (awaiting requester) run deferred, via call_soon: user code must
    # not cancel such a request from inside another callback (the order of the follow-ups would be
    # the loop's, not the one of concurrent.futures the model describes)
    tops = [e for e in case["evs"] if e[0] == "send"]
    deferred = {j for j, e in enumerate(tops) if e[4] == "a" and cb_style(e[2])[0] is not None}
    for e in tops:
        if any(op[0] == "c" and op[1] in deferred for op in cb_style(e[2])[1]):
            return False
    for e in case["evs"]:
        k = e[0]
        if k == "send":
            nsend += 1
            if e[3] is None:
                nuu += 1
            style, ops = cb_style(e[2])
            if e[4] == "a" and style == "u":
                return False
            if any(op[0] == "s" and op[2] is None for op in ops):
                return False                      # follow-ups carry explicit ids (uuid numbering stays static)
            if len(e) > 5 and e[5] is not None and e[5][0] == "l" and e[4] != "t":
                return False
        elif k == "cancel":
            if e[1] >= nsend:
                return False
        elif k == "note":
            continue
        else:
            r = e[1]
            if r[0] == "u" and r[1] >= nuu:
                return False
            key = core.canon(r)
            if k == "inasync":
                if key in live:
                    return False
                live.add(key)
            elif k == "indone":
                if key not in live:
                    return False
                live.discard(key)
            elif k == "incancel" and key in live:
                return False
    return True


class C05(core.Property):
    id = "C05"
    modules = ["Proofs.OutgoingProofs", "Props.C05"]
    obligations = ["inv_init", "inv_step", "inv_run", "ids_distinct", "resp_frame", "first_response_wins",
                   "future_monotone", "future_monotone_run", "callback_iff_resolved", "stray_dup_noop",
                   "error_always_fails", "result_resolves", "class_of_code_spec", "guard_sound",
                   "reference_agrees", "step_with_trig", "exec_flat", "rstep_flat", "rrun_flat",
                   "reentrant_first_response_wins", "C05_reentrant", "reentrant_poll", "unissued_id_affects_nothing", "null_id_affects_nothing", "null_id_one_outstanding", "reply_during_write", "registered_before_write", "reply_order_irrelevant", "C05_partial", "C05", "C05_permutation", "C05_refuted_shared_tables", "C05_refuted_code_range", "C05_refuted",
                   "C05_outside_invalid_result", "C05_nonvacuous", "C16_outgoing", "rtypes_sub", "K_step"]
    coq_targets = ["Props/C05.vo", "Extract/ExtractC05.vo"]
    rule = ("scripted histories over the real protocol object: k <= 6 outstanding requests over 8 methods "
            "(7 result classes), replies in all orders (k <= 4 exhaustive) / random orders, reply kinds "
            "result / error over 20 codes x 4 messages x 6 data values, duplicates, strays, ids echoed with "
            "the wrong JSON type, caller cancels, cross-direction traffic; requesters plain / awaiting "
            "coroutine / blocked thread; non-trivial = >= 2 outstanding and replies not in send order, or a "
            "duplicate / stray / wrong-type id / unusual error (code 0, empty message, falsy data) present")
    trusted_base = ["Coq 8.16.1 kernel incl. vm_compute (witnesses, Examples)",
                    "extraction with ExtrOcamlBasic only + ocaml/c05_driver.ml + conv_io/conv_n/conv_nat",
                    "harness/c05.py (script generator, driver of the real protocol, canonicalisation)",
                    "modelled not verified: dict get/set/pop, concurrent.futures.Future state machine, "
                    "uuid4 as an injective fresh-id supply, cattrs structure() as an oracle (which class, "
                    "whether it fails)",
                    priv.trusted(["protocol.request_futures", "protocol.result_types", "server.error_handler"])]
    private = ["protocol.request_futures", "protocol.result_types", "server.error_handler"]
    assumptions = ["outgoing ids are never reused (uuid4 supply / caller-given msg_id distinct)",
                   "disjoint_directions: the peer's request ids and cancelled ids are none of pygls' outstanding ids",
                   "result payloads validate against the requested method's result type",
                   "error codes are LSP integers (int32); beyond that: finding F29",
                   "response ids are JSON ints or strings; frames are JSON-RPC 2.0; no shutdown in the history"]

    # ---------------- generation ----------------
    def generate(self, chk):
        cases = []
        cdir = os.path.join(core.ROOT, "corpus", "C05")
        if os.path.isdir(cdir):
            for f in sorted(os.listdir(cdir)):
                if f.endswith(".json"):
                    cases.extend(json.load(open(os.path.join(cdir, f))))
        rng = chk.rng
        # (1) every error code x message x data on a single request (all requesters)
        n = 0
        for code in CODES:
            for mi in range(len(MSGS)):
                for di in (range(len(DATA)) if not chk.quick else [n % len(DATA)]):
                    n += 1
                    kind = "pat"[n % 3]
                    cb = 0 if kind == "a" else n % 2
                    mid = [None, ["i", 7], ["s", "7"]][n % 3]
                    ref = ["u", 0] if mid is None else mid
                    cases.append({"evs": [["send", n % len(METHODS), cb, mid, kind],
                                          ["err", ref, code, mi, di]]})
        # (1a') the data member is a dimension of its own: every class of codes x every kind of data
        n = 0
        for code in CODE_CLASSES:
            for di in range(len(DATA)):
                n += 1
                cases.append({"evs": [["send", n % len(METHODS), 1, None, "p"], ["err", ["u", 0], code, n % len(MSGS), di]]})
        # (1a'') a REAL stdio server: k thread-pool handlers blocked on requests they sent, answered in
        #        every order (k <= 3; k = 4: a sample in quick) after all k are blocked
        for k in (1, 2, 3, 4):
            orders = list(itertools.permutations(range(k)))
            if k == 4 and chk.quick:
                orders = [orders[0], orders[-1], orders[9], orders[14]]
            for on, order in enumerate(orders):
                evs = [["send", 6, 0, None, "t"] for _ in range(k)]
                for j in order:
                    evs.append(["res", ["u", j], SHAPED[(j + on) % 3]] if (j + on) % 2 == 0 else
                               ["err", ["u", j], [0, -32603, -32001][j % 3], j % len(MSGS), (3 * j + on) % len(DATA)])
                cases.append({"evs": evs, "stdio": True, "stream": None})
        # (1s) responses whose id is no key of the in-flight table: {result, error} x {null, unknown
        #      int, unknown string, fractional number, bool, list, object, id of an already completed
        #      request} x {0, 1, 2, 5 outstanding} x {before, between, after the real replies}
        strays = [["n"], ["i", 99], ["s", "zz"], ["x", 0], ["x", 4], ["x", 2], ["x", 3], "done"]
        idpool = [None, ["i", 7], ["s", "a"], None, ["s", "7"]]
        n = 0
        for skind in ("res", "err"):
            for stray in strays:
                for k in (0, 1, 2, 5):
                    for pos in ("before", "between", "after"):
                        if pos == "between" and k < 2:
                            continue
                        n += 1
                        evs, refs, nuu = [], [], 0
                        sid = stray
                        if stray == "done":
                            sid = ["s", "done"]
                            evs += [["send", 6, 1, sid, "p"], ["res", sid, 3]]
                        for j in range(k):
                            mid = idpool[(j + n) % len(idpool)] if k < 5 else idpool[j]
                            kind = "pta"[(j + n) % 3]
                            evs.append(["send", (j + n) % len(METHODS), 0 if kind == "a" else 1, mid, kind])
                            if mid is None:
                                refs.append(["u", nuu]); nuu += 1
                            else:
                                refs.append(mid)
                        real = []
                        for j in range(k):
                            rt = METHODS[(j + n) % len(METHODS)][1]
                            good = [p for p in range(len(PAYLOADS)) if oracle(rt, p)[0]]
                            real.append(["res", refs[j], good[(j + n) % len(good)]] if (j + n) % 2 == 0 else
                                        ["err", refs[j], CODE_CLASSES[(j + n) % len(CODE_CLASSES)], n % len(MSGS), (j + n) % len(DATA)])
                        sev = (["res", sid, [0, 1, 3, 10][n % 4]] if skind == "res" else
                               ["err", sid, CODE_CLASSES[n % len(CODE_CLASSES)], n % len(MSGS), n % len(DATA)])
                        cut = {"before": 0, "between": k // 2, "after": k}[pos]
                        cases.append({"evs": evs + real[:cut] + [sev] + real[cut:]})
        # (1b) reactive transport: the reply is dispatched while send_request is still inside
        #      writer.write - in the same thread (w: in-process / loopback writer) or by the read
        #      loop on the main thread while the sending thread is blocked in write (l)
        n = 0
        for kind, mode in (("p", "w"), ("a", "w"), ("t", "w"), ("t", "l")):
            for rk in range(3):
                for mid in (None, ["i", 7]):
                    for pre in (False, True):
                        n += 1
                        mi = n % len(METHODS)
                        good = [p for p in range(len(PAYLOADS)) if oracle(METHODS[mi][1], p)[0]]
                        rep = [["res", good[n % len(good)]], ["err", 0, 0, 3], ["err", -32603, 1, 0]][rk]
                        cb = 0 if kind == "a" else 1
                        ref = mid if mid is not None else ["u", 1 if pre else 0]
                        evs = [["send", (mi + 1) % len(METHODS), 1, None, "p"]] if pre else []
                        evs.append(["send", mi, cb, mid, kind, [mode, rep]])
                        evs.append(["res", ref, good[0]])                       # a duplicate afterwards
                        if pre:
                            evs.append(["err", ["u", 0], 1, 1, 0])
                        cases.append({"evs": evs})
        # (1c) re-entrant user code: a callback (callback= / add_done_callback) re-sends with the id
        #      that has just been answered (poll with a fixed msg_id, 1..3 generations), with another
        #      id, or cancels another future; from the result path and from the error path; every
        #      generation gets its own reply
        P7, PS, OTH = ["i", 7], ["s", "poll"], ["i", 1001]
        res0 = lambda mi: ["res", None, [p for p in range(len(PAYLOADS)) if oracle(METHODS[mi][1], p)[0]][0]]
        n = 0
        for kind in "pta":
            for style in "ud":
                if kind == "a" and style == "u":
                    continue
                for gens in (1, 2, 3):
                    for pid in (P7, PS):
                        n += 1
                        mi = n % 6
                        ops = [["s", mi, pid] for _ in range(gens)]
                        evs = [["send", mi, [style, ops], pid, kind]]
                        for g in range(gens + 1):
                            if style == "d" and g % 2 == 1:
                                evs.append(["err", pid, [0, -32603, 1][g % 3], g % 4, g % 6])   # error path goes on polling
                            else:
                                evs.append(["res", pid, res0(mi)[2]])
                        evs.append(["res", pid, res0(mi)[2]])                                   # one reply too many: a stray
                        cases.append({"evs": evs})
                # other id, cancel of another future, two pollers interleaved, reactive transport
                mi = n % 6
                cases.append({"evs": [["send", 6, 1, None, "p"], ["send", mi, [style, [["c", 0], ["s", 6, OTH], ["c", 1]]], P7, kind],
                                      ["res", P7, res0(mi)[2]], ["res", OTH, 3], ["res", ["u", 0], 3], ["res", P7, res0(mi)[2]]]})
                cases.append({"evs": [["send", mi, [style, [["s", mi, P7], ["s", mi, P7]]], P7, kind],
                                      ["send", 6, [style, [["s", 6, PS]]], PS, "p"],
                                      ["res", PS, 3], ["res", P7, res0(mi)[2]], ["res", P7, res0(mi)[2]], ["err", PS, 0, 0, 0],
                                      ["res", P7, res0(mi)[2]], ["res", PS, 3]]})
                cases.append({"evs": [["send", mi, [style, [["s", mi, P7]]], P7, kind, ["w", ["res", res0(mi)[2]]]],
                                      ["res", P7, res0(mi)[2]], ["res", P7, res0(mi)[2]]]})
                if kind == "t":
                    cases.append({"evs": [["send", mi, [style, [["s", mi, P7], ["s", mi, P7]]], P7, kind, ["l", ["res", res0(mi)[2]]]],
                                          ["res", P7, res0(mi)[2]], ["err", P7, 1, 0, 0], ["res", P7, res0(mi)[2]]]})
                # the caller cancels a polling request: its add_done_callback fires (re-send), callback= does not
                cases.append({"evs": [["send", mi, [style, [["s", mi, P7]]], P7, kind], ["cancel", 0],
                                      ["res", P7, res0(mi)[2]], ["res", P7, res0(mi)[2]]]})
        # (1d) untyped methods (no registered result type: the result is decoded generically): objects
        #      with one key set in different member orders, nested, within one history and across
        #      histories, and the same shapes arriving as params of incoming notifications in between
        for n, perm in enumerate(itertools.permutations(SHAPED)):
            kinds = "pta"[n % 3] + "pta"[(n + 1) % 3] + "p"
            evs = [["send", 6, 0 if kinds[0] == "a" else 1, None, kinds[0]], ["note", perm[1]],
                   ["send", 7, 0 if kinds[1] == "a" else 1, ["s", "a"], kinds[1]], ["res", ["u", 0], perm[0]],
                   ["send", 6, 1, ["i", 7], "p"], ["note", perm[2]], ["res", ["i", 7], perm[1]],
                   ["res", ["s", "a"], perm[2]], ["note", perm[0]]]
            cases.append({"evs": evs})
            cases.append({"evs": [["note", perm[0]], ["send", 7, 1, None, "p"], ["res", ["u", 0], perm[1]]]})
        # (2) k outstanding, one reply each, every order of the replies
        for k in range(1, chk.n(3, 4) + 1):
            for rep in range(chk.n(3, 12)):
                sends, ids = self._sends(rng, k)
                replies = [self._reply(rng, sends[j], ids[j]) for j in range(k)]
                for perm in itertools.permutations(range(k)):
                    cases.append({"evs": sends + [replies[j] for j in perm]})
        # (2L) MANY outstanding requests (the quantifier puts no bound on k): k in the hundreds, all
        #      sent before the peer answers any, mixed methods / id kinds / requesters / callbacks,
        #      then one reply each - oldest first, newest first, shuffled - plus a few duplicates
        for k, order in self._large_plan(chk, rng):
            cases.append(self._large(rng, k, order))
        # (3) random histories
        for _ in range(chk.n(780, 15000)):
            cases.append(self._random(rng))
        cases = [c for c in cases if wellformed(c)]
        # the transport: 3 histories in 10 arrive as Content-Length frames through the real
        # run_async over a StreamReader, 1 in 10 (when no coroutine is involved) through run
        for n, c in enumerate(cases):
            if "stream" in c or c.get("stdio"):
                continue
            if n % 10 in (1, 4, 7):
                c["stream"] = "a"
            elif n % 10 == 9 and self._sync_ok(c):
                c["stream"] = "s"
        return cases

    @staticmethod
    def _sync_ok(c):
        for e in c["evs"]:
            if e[0] in ("inasync", "indone"):
                return False
            if e[0] == "send" and (e[4] == "a" or (len(e) > 5 and e[5] is not None and e[5][0] == "l")):
                return False
        return True

    def _sends(self, rng, k, given_p=0.4):
        ms = rng.sample(range(len(METHODS)), min(k, len(METHODS))) + [rng.randrange(len(METHODS)) for _ in range(max(0, k - len(METHODS)))]
        sends, ids, nuu = [], [], 0
        pool = list(GIVEN_IDS)
        rng.shuffle(pool)
        for j in range(k):
            kind = rng.choice("pat")
            cb = 0 if kind == "a" else rng.randrange(2)
            if rng.random() < given_p and pool:
                mid = pool.pop()
                ids.append(mid)
                if rng.random() < 0.3:
                    style = "d" if (kind == "a" or rng.random() < 0.5) else "u"
                    ops = []
                    for _ in range(rng.randint(1, 3)):
                        r = rng.random()
                        ops.append(["c", rng.randrange(k)] if r < 0.25 else
                                   ["s", ms[j], mid] if r < 0.85 else ["s", ms[j], ["i", 1001 + j]])
                    cb = [style, ops]
            else:
                mid = None
                ids.append(["u", nuu]); nuu += 1
            sends.append(["send", ms[j], cb, mid, kind])
        return sends, ids

    @staticmethod
    def _large_plan(chk, rng):
        ks = [rng.randint(300, 340), rng.randint(341, 420)] if chk.quick else \
             [rng.randint(257, 300), rng.randint(300, 400), rng.randint(401, 600), 600]
        orders = ["oldest", "newest", "shuffled"]
        if chk.quick:
            # every order once, on sizes drawn from the two ranges
            return [(ks[0], "oldest"), (ks[1], "newest"), (ks[0], "shuffled")]
        return [(k, o) for k in ks for o in orders]

    def _large(self, rng, k, order):
        sends, ids, nuu = [], [], 0
        for j in range(k):
            mi = rng.randrange(len(METHODS))
            r = rng.random()
            kind = "a" if r < 0.10 else "t" if r < 0.12 else "p"
            cb = 0 if kind == "a" else rng.randrange(2)
            r = rng.random()
            if r < 0.15:
                mid = ["i", 1000 + j]
            elif r < 0.30:
                mid = ["s", "q%d" % j]
            else:
                mid = None
            if mid is None:
                ids.append(["u", nuu]); nuu += 1
            else:
                ids.append(mid)
            sends.append(["send", mi, cb, mid, kind])
        idx = list(range(k))
        if order == "newest":
            idx.reverse()
        elif order == "shuffled":
            rng.shuffle(idx)
        def reply(j):
            rep = self._reply(rng, sends[j], ids[j], valid_p=1.0)
            if rep[0] == "err" and rep[2] not in CODES_INT32:
                rep[2] = rng.choice(CODES_INT32)
            if rep[0] == "res" and rep[2] in SHAPED:         # (family 1d's; such a history is not shrunk)
                rep[2] = rng.choice([p for p in oks_of(METHODS[sends[j][1]][1]) if p not in SHAPED])
            return rep
        replies = [reply(j) for j in idx]
        for _ in range(3):                                   # a few duplicates, anywhere after the original
            a = rng.randrange(k)
            replies.insert(rng.randint(a + 1, len(replies)), reply(idx[a]))
        return {"evs": sends + replies, "stream": None, "large": [k, order], "trace_every": 1 + k // 8}

    def _reply(self, rng, send, ref, valid_p=0.93):
        rt = METHODS[send[1]][1]
        if rng.random() < 0.5:
            good = [p for p in range(len(PAYLOADS)) if oracle(rt, p)[0]]
            p = rng.choice(good) if rng.random() < valid_p else rng.randrange(len(PAYLOADS))
            return ["res", ref, p]
        pool = CODES if rng.random() < 0.25 else CODES_INT32
        return ["err", ref, rng.choice(pool), rng.randrange(len(MSGS)), rng.randrange(len(DATA))]

    @staticmethod
    def _wrong_type(ref):
        if ref[0] == "i":
            return ["s", str(ref[1])]
        if ref[0] == "s" and (ref[1].lstrip("-").isdigit()):
            return ["i", int(ref[1])]
        return None

    def _random(self, rng):
        k = rng.randint(1, 6)
        sends, ids = self._sends(rng, k)
        evs, pending_sends = [], list(zip(sends, ids))
        sent = []          # (send, ref)
        cross = rng.random() < 0.18
        collide = cross and rng.random() < 0.5
        live_in = []
        steps = rng.randint(k, 3 * k + 4)
        while pending_sends or steps > 0:
            steps -= 1
            r = rng.random()
            if pending_sends and (r < 0.35 or not sent):
                s, ref = pending_sends.pop(0)
                if rng.random() < 0.12:
                    rep = self._reply(rng, s, ref)
                    rep = ["res", rep[2]] if rep[0] == "res" else ["err", rep[2], rep[3], rep[4]]
                    s = s + [["l" if (s[4] == "t" and rng.random() < 0.5) else "w", rep]]
                evs.append(s); sent.append((s, ref))
                continue
            if not sent:
                continue
            s, ref = rng.choice(sent)
            if r < 0.70:
                evs.append(self._reply(rng, s, ref))                      # reply (possibly a duplicate)
            elif r < 0.76:
                evs.append(self._reply(rng, s, rng.choice(STRAY_IDS)))    # stray id
            elif r < 0.82:
                w = self._wrong_type(ref)
                evs.append(self._reply(rng, s, w if w is not None else rng.choice(STRAY_IDS)))
            elif r < 0.88:
                evs.append(["cancel", rng.randrange(len(sent))])
            elif cross:
                ref2 = ref if collide else rng.choice([["i", 1000], ["s", "peer"], ["i", 99], ["s", "zz"]])
                key = core.canon(ref2)
                c = rng.choice(IN_EVENTS)
                if c == "inasync" and key not in live_in:
                    live_in.append(key); evs.append(["inasync", ref2])
                elif c == "indone" and key in live_in:
                    live_in.remove(key); evs.append(["indone", ref2, rng.randrange(2)])
                elif c == "incancel" and key not in live_in:
                    evs.append(["incancel", ref2])
                elif c == "inreply":
                    evs.append(["inreply", ref2])
        return {"evs": evs}

    # ---------------- implementation ----------------
    def run_impl(self, chk, cases):
        # the subprocess family first, four servers at a time
        stdio = {}
        idx = [n for n, c in enumerate(cases) if c.get("stdio")]
        if idx:
            from concurrent.futures import ThreadPoolExecutor
            with ThreadPoolExecutor(4) as ex:
                for n, r in zip(idx, ex.map(run_stdio, [cases[n] for n in idx])):
                    stdio[n] = r
        return [stdio[n] if n in stdio else run_case(c) for n, c in enumerate(cases)]

    def extra_checks(self, chk):
        """from_error called directly: every class of codes x every kind of data gives an exception of
        the class registered for the code carrying exactly (code, message, data)."""
        from lsprotocol import types
        from pygls.exceptions import JsonRpcException
        exact = {-32603: 1, -32602: 2, -32600: 3, -32601: 4, -32700: 5, -32800: 6}
        out, n = [], 0
        for code in sorted(set(CODE_CLASSES + CODES_INT32)):
            want_cls = CLASS_NAMES[exact.get(code, 7 if -32099 <= code <= -32000 else 0)]
            for di in range(len(DATA)):
                for msg in ("", "m"):
                    n += 1
                    data = None if DATA[di] == ABSENT else json.loads(json.dumps(DATA[di]))
                    want = [want_cls, code, msg, canon_data(data)]
                    try:
                        exc = JsonRpcException.from_error(types.ResponseError(code=code, message=msg, data=data))
                        got = [type(exc).__name__, exc.code, exc.message, canon_data(exc.data)]
                    except Exception as ex:
                        got = ["raise", type(ex).__name__]
                    if got != want:
                        out.append({"case": {"from_error": [code, msg, di]}, "impl": got, "S": want,
                                    "verdict": "violation"})
        self.extra_coverage = {"from_error_direct_calls": n}
        return out[:3]

    def same(self, c, impl, M):
        if c.get("stdio"):
            return isinstance(impl, dict) and impl["final"] == M["final"]
        return impl == M

    # ---------------- model ----------------
    @staticmethod
    def expand(c):
        """Model events of a script.  A reactive send (the reply is dispatched during the write) is,
        by Proofs.OutgoingProofs.reply_during_write, the send followed by that reply; `keep` = index
        of the model state that corresponds to the end of each script event."""
        evs, keep, nuu = [], [], 0
        for e in c["evs"]:
            if e[0] == "send":
                ref = e[3]
                if ref is None:
                    ref = ["u", nuu]; nuu += 1
                evs.append(e[:5])
                if len(e) > 5 and e[5] is not None:
                    rep = e[5][1]
                    evs.append(["res", ref, rep[1]] if rep[0] == "res" else ["err", ref, rep[1], rep[2], rep[3]])
            elif e[0] != "note":          # a notification nobody handles: no event of the model
                evs.append(e)
            keep.append(len(evs) - 1)
        return evs, keep

    def model_input(self, c):
        evs, _ = self.expand(c)
        return f"run {len(evs)} " + " ".join(enc_ev(e) for e in evs)

    def model_output(self, c, toks):
        t = Toks(toks)

        keep = [j for n, j in enumerate(self.expand(c)[1]) if traced(c, n)]
        wanted, nth = set(keep), [-1]

        def digest():
            nth[0] += 1
            futs = t.lst(lambda: [t.int(), t.int()])
            errs, nout = t.int(), t.int()
            fk, rk = t.lst(t.id), t.lst(t.id)
            if nth[0] not in wanted:
                return None
            return [futs, errs, nout, sort_ids(fk), sort_ids(rk)]
        trace = t.lst(digest)
        trace = [trace[j] if j >= 0 else [[], 0, 0, [], []] for j in keep]
        final = t.lst(lambda: [t.fstate(), t.int()])

        def wire():
            k = t.int()
            if k == 0:
                i = t.id(); m = t.int()
                return [i, METHODS[m][0]]
            tok = t.id(); kind = t.int(); v = t.int()
            return ["progress", tok, kind, v]
        out = t.lst(wire)
        spec = t.lst(lambda: [t.fstate(), t.int()])
        g, inj, disj, valid, codes = t.int(), t.int(), t.int(), t.int(), t.int()
        M = {"trace": trace, "final": final, "seen": [f[0] for f in final], "out": out}
        S = {"final": spec}
        klass = None
        if not g:
            if inj and valid and codes and not disj:
                klass = "F21-shared-id-tables"
            elif inj and valid and disj and not codes:
                klass = "F29-error-code-beyond-int32"
            else:
                S = None        # invalid result payload / reused id: outside the property's quantifier
        return {"M": M, "S": S, "guard": bool(g), "klass": klass}

    def satisfies(self, c, impl, S):
        if not isinstance(impl, dict):
            return False
        if impl["final"] != S["final"]:
            return False
        if c.get("stdio"):
            return True
        # the requester (coroutine / thread / caller) sees exactly the future's state
        if impl["seen"] != [f[0] for f in impl["final"]]:
            return False
        # a future changes state at most once
        for k in range(len(impl["final"])):
            seq = [d[0][k][0] for d in impl["trace"] if k < len(d[0])]
            for a, b in zip(seq, seq[1:]):
                if a != 0 and a != b:
                    return False
            for d1, d2 in zip(impl["trace"], impl["trace"][1:]):
                if k < len(d1[0]) and d1[0][k][1] > d2[0][k][1]:
                    return False
        # at every moment the outstanding requests carry pairwise distinct ids (frame k is request k)
        ids = [core.canon(o[0]) for o in impl["out"]]
        for d in impl["trace"]:
            pend = [ids[k] for k in range(min(len(d[0]), len(ids))) if d[0][k][0] == 0]
            if len(pend) != len(set(pend)):
                return False
        return True

    def nontrivial(self, c):
        evs = c["evs"]
        nsend = sum(1 for e in evs if e[0] == "send")
        order = [core.canon(e[1]) for e in evs if e[0] in ("res", "err")]
        sent, nuu = [], 0
        for e in evs:
            if e[0] == "send":
                if e[3] is None:
                    sent.append(core.canon(["u", nuu])); nuu += 1
                else:
                    sent.append(core.canon(e[3]))
        first = []
        for o in order:
            if o in sent and o not in first:
                first.append(o)
        reordered = nsend >= 2 and first != [s for s in sent if s in first]
        dup = len(order) != len(set(order))
        stray = any(o not in sent for o in order)
        odd = any(e[0] == "err" and (e[2] == 0 or e[3] == 0 or e[4] in (3, 4, 5)) for e in evs)
        return reordered or dup or stray or odd

    def shrink(self, c):
        evs = c["evs"]
        if c.get("stdio"):
            return
        if any((e[0] in ("res",) and e[2] in SHAPED) or e[0] == "note" for e in evs):
            return          # judged against module-level state of the process (class caches): a smaller
                            # candidate may fail only because of what earlier cases left behind
        if len(evs) > 40:
            # a long history: halve it from the end first (a prefix of a script is a script)
            for cut in (len(evs) // 2, (3 * len(evs)) // 4, len(evs) - 8, len(evs) - 1):
                d = dict(c); d["evs"] = evs[:cut]
                if 0 < cut < len(evs) and wellformed(d):
                    yield d
        for i in range(len(evs)):
            d = dict(c); d["evs"] = evs[:i] + evs[i + 1:]
            if evs[i][0] == "send":
                # dropping a send renumbers handles and uuids: drop what refers to it as well
                continue
            if wellformed(d):
                yield d
        for i in range(len(evs)):
            if evs[i][0] == "send" and len(evs[i]) > 5 and evs[i][5] is not None and evs[i][5][0] == "l":
                e = list(evs[i]); e[5] = ["w", e[5][1]]
                yield dict(c, evs=evs[:i] + [e] + evs[i + 1:])
        for i in range(len(evs)):
            if evs[i][0] == "send" and evs[i][4] != "p":
                e = list(evs[i]); e[4] = "p"
                yield dict(c, evs=evs[:i] + [e] + evs[i + 1:])
        if c.get("stream"):
            yield {"evs": evs}

    def search(self, chk):
        """Bounded scope evaluated on the implementation against S: one request, every reply kind."""
        cases = []
        for code in CODES:
            for mi in range(len(MSGS)):
                cases.append({"evs": [["send", 0, 1, None, "p"], ["err", ["u", 0], code, mi, 0]]})
        for p in range(len(PAYLOADS)):
            for m in range(len(METHODS)):
                cases.append({"evs": [["send", m, 1, None, "p"], ["res", ["u", 0], p]]})
        res = core.evaluate(self, chk, cases)
        return [r for r in res if r["verdict"] == "violation"][:1]

    def distribution(self, cases):
        d = {}
        for c in cases:
            evs = c["evs"]
            d[f"sends={sum(1 for e in evs if e[0] == 'send')}"] = d.get(f"sends={sum(1 for e in evs if e[0] == 'send')}", 0) + 1
            for e in evs:
                key = "ev:" + e[0] + (":" + e[4] if e[0] == "send" else "")
                if e[0] == "send" and len(e) > 5 and e[5] is not None:
                    key += ":reactive-" + e[5][0]
                d[key] = d.get(key, 0) + 1
                if e[0] == "err":
                    d[f"code:{e[2]}"] = d.get(f"code:{e[2]}", 0) + 1
        return d


PROPERTY = C05
