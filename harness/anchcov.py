#!/usr/bin/env python3
"""Anchored-line coverage of the correspondence runs (DESIGN 1.4).

For every registered property: the code ranges its `anchors.mechanism[].where` names (line numbers
of the pinned commit abac156) are mapped to the enclosing functions, those functions are located
in the CURRENT /repo source, the property's quick check is run under `coverage` (threads and
forked children followed; separately spawned server scripts are not), and the executable lines of
those functions that no case executed are listed. A mutation can only hide from the differential
tie in such a line, so the list is the work-list for the generators.

  python3 harness/anchcov.py [C01 C02 ...]      -> work/cov/anchored_coverage.json + table on stdout
"""
import ast, glob, json, os, re, subprocess, sys
ROOT = os.path.dirname(os.path.dirname(os.path.abspath(__file__)))
PIN = "abac156"
COV = os.path.join(ROOT, "work", "cov")


def funcs_of(src):
    """[(qualname, first line, last line)] of every function/method (innermost wins later)."""
    out = []
    def walk(node, prefix):
        for ch in ast.iter_child_nodes(node):
            if isinstance(ch, (ast.FunctionDef, ast.AsyncFunctionDef, ast.ClassDef)):
                q = prefix + ch.name
                if not isinstance(ch, ast.ClassDef):
                    first = min([ch.lineno] + [d.lineno for d in ch.decorator_list])
                    out.append((q, first, ch.end_lineno))
                walk(ch, q + ".")
            else:
                walk(ch, prefix)
    walk(ast.parse(src), "")
    return out


def anchored_functions(prop):
    res = {}
    for m in prop["anchors"]["mechanism"]:
        for part in m["where"].split(","):
            mm = re.match(r"\s*(\S+?\.py):(\d+)(?:-(\d+))?", part.strip())
            if not mm:
                continue
            f, a, b = mm.group(1), int(mm.group(2)), int(mm.group(3) or mm.group(2))
            r = subprocess.run(["git", "-C", "/repo", "show", f"{PIN}:{f}"], capture_output=True, text=True)
            if r.returncode != 0:
                continue
            fs = funcs_of(r.stdout)
            for ln in range(a, b + 1):
                inner = [x for x in fs if x[1] <= ln <= x[2]]
                if inner:
                    q = max(inner, key=lambda x: x[1])[0]
                    res.setdefault(f, set()).add(q)
    return res


def main():
    props = {json.loads(l)["id"]: json.loads(l) for l in open(os.path.join(ROOT, "properties.jsonl"))}
    want = sys.argv[1:] or sorted(open(os.path.join(ROOT, "harness", "registered.txt")).read().split())
    os.makedirs(COV, exist_ok=True)
    rc = os.path.join(COV, "covrc.ini")
    open(rc, "w").write("[run]\nsource = /repo/pygls\nconcurrency = thread,multiprocessing\nparallel = True\n"
                        f"data_file = {COV}/.coverage\n")
    report = {}
    for pid in want:
        for f in glob.glob(os.path.join(COV, ".coverage*")):
            os.remove(f)
        # interpreters the check spawns are measured too when they inherit PYTHONPATH (sitecustomize
        # starts coverage in them); a child started with an explicit PYTHONPATH of its own is not
        site = os.path.join(COV, "site"); os.makedirs(site, exist_ok=True)
        open(os.path.join(site, "sitecustomize.py"), "w").write(
            "try:\n    import coverage; coverage.process_startup()\nexcept Exception:\n    pass\n")
        env = dict(os.environ, PYTHONPATH="/repo" + os.pathsep + site, PYTHONHASHSEED="0", PYGLS_VERIF="1",
                   VERIF_NO_EVIDENCE="1", VERIF_SERIAL="1", PYTHONDONTWRITEBYTECODE="1", COVERAGE_PROCESS_START=rc)
        r = subprocess.run(["/venv/bin/python", "-m", "coverage", "run", f"--rcfile={rc}", "harness/check.py", pid,
                            "--tier", "quick"], cwd=ROOT, env=env, capture_output=True, text=True, timeout=3600)
        subprocess.run(["/venv/bin/python", "-m", "coverage", "combine", f"--rcfile={rc}"], cwd=COV, env=env,
                       capture_output=True, text=True)
        j = os.path.join(COV, f"{pid}.json")
        subprocess.run(["/venv/bin/python", "-m", "coverage", "json", f"--rcfile={rc}", "-o", j], cwd=COV, env=env,
                       capture_output=True, text=True)
        if not os.path.exists(j):
            report[pid] = {"error": (r.stdout + r.stderr)[-300:]}
            continue
        cj = json.load(open(j))["files"]
        anch = anchored_functions(props[pid])
        tot = exe = 0
        missing = {}
        for f, quals in sorted(anch.items()):
            key = next((k for k in cj if k.endswith(f)), None)
            cur = funcs_of(open(os.path.join("/repo", f)).read())
            for q in sorted(quals):
                rng = [x for x in cur if x[0] == q]
                if not rng or key is None:
                    missing.setdefault(f, {})[q] = "function not found in the current source"
                    continue
                _, a, b = rng[0]
                ex = [l for l in cj[key]["executed_lines"] if a <= l <= b]
                mi = [l for l in cj[key]["missing_lines"] if a <= l <= b]
                tot += len(ex) + len(mi); exe += len(ex)
                if mi:
                    missing.setdefault(f, {})[q] = mi
        report[pid] = {"anchored_functions": {f: sorted(q) for f, q in anch.items()}, "anchored_lines": tot,
                       "anchored_lines_executed": exe, "never_executed": missing,
                       "check_exit": r.returncode}
        print(f"{pid}: {exe}/{tot} anchored lines executed; never executed: "
              + ("; ".join(f"{f}:{q}:{v}" for f, d in missing.items() for q, v in d.items()) or "-"), flush=True)
    old = {}
    outp = os.path.join(COV, "anchored_coverage.json")
    if os.path.exists(outp):
        old = json.load(open(outp))
    old.update(report)
    json.dump(old, open(outp, "w"), indent=1, sort_keys=True)


main()
