"""C17 - a client never waits on a dead server.

Drives the real pygls client (JsonRPCClient.start_io) against scripted server processes
(harness/servers/c17_server.py) that exit after the k-th message with status 0 / 1 / SIGKILL,
optionally after a partial frame, with 0-8 requests outstanding.  Model and reference are
Model/Client.v and Spec/ClientSpec.v through bin/c17_driver.

Run as `python c17.py --worker` it is the per-process case runner (one JSON case per stdin line,
one JSON observation per stdout line); the check starts up to 4 of these in parallel so that a
hang or a crash inside one case cannot take the check down, and kills them on a hard time bound.
"""
import asyncio, json, logging, os, signal, subprocess, sys, time
import priv

HERE = os.path.dirname(os.path.abspath(__file__))
SERVER = os.path.join(HERE, "servers", "c17_server.py")
CASE_TIMEOUT = 5.0          # the property's time bound per case
AWAIT_TIMEOUT = 2.0         # waiting for a scripted reply of a live server

TAILS = {
    "none": "",
    "phdr": "Content-Len",                               # cut inside the header line
    "phdr_line": "Content-Length: 25\r\n",               # header line complete, no blank line
    "pbody": "Content-Length: 25\r\n\r\n{\"jsonrpc\": \"2.0\", ",   # cut inside the body
    "pbody0": "Content-Length: 25\r\n\r\n",              # cut right before the body
    "junk": "garbage line\r\n",                           # a line that is not a header
}
PRE = {
    "bad": "Content-Length: 3\r\n\r\n{x}",               # complete frame, body is not JSON
    "junk": "garbage line\r\n",
}
TAIL_CLASS = {"none": 0, "phdr": 1, "phdr_line": 1, "pbody": 2, "pbody0": 2, "junk": 3}

# A partial frame at EVERY byte offset (what Proofs/LinkClientFraming.v quantifies over): the tail
# "cut/<layout>/<c>" is the first c bytes of one well-formed frame, for the three header layouts a
# conforming peer may emit.
CUT_BODY = '{"jsonrpc": "2.0", "id": 1}'
CUT_HEADERS = {
    "cl": "Content-Length: %d\r\n\r\n" % len(CUT_BODY),
    "clct": "Content-Length: %d\r\nContent-Type: application/vscode-jsonrpc; charset=utf-8\r\n\r\n" % len(CUT_BODY),
    "ctcl": "Content-Type: application/vscode-jsonrpc; charset=utf-8\r\nContent-Length: %d\r\n\r\n" % len(CUT_BODY),
}


def _cut(name):
    _, lay, c = name.split("/")
    return lay, int(c)


def is_tail(name):
    if name in TAILS:
        return True
    try:
        lay, c = _cut(name)
        return name.startswith("cut/") and lay in CUT_HEADERS and 0 <= c < len(CUT_HEADERS[lay]) + len(CUT_BODY)
    except Exception:
        return False


def tail_bytes(name):
    if name in TAILS:
        return TAILS[name]
    lay, c = _cut(name)
    return (CUT_HEADERS[lay] + CUT_BODY)[:c]


def tail_class(name):
    """the model's tail class: 0 clean, 1 cut inside the header block, 2 header block complete and body cut, 3 junk"""
    if name in TAIL_CLASS:
        return TAIL_CLASS[name]
    lay, c = _cut(name)
    return 0 if c == 0 else 1 if c < len(CUT_HEADERS[lay]) else 2


def cut_tails(lay, body_sample=None):
    h = len(CUT_HEADERS[lay])
    body = range(h, h + len(CUT_BODY)) if body_sample is None else body_sample
    return ["cut/%s/%d" % (lay, c) for c in list(range(1, h)) + list(body)]
EXIT_RC = {"0": 0, "1": 1, "kill": -9}

# A request whose sending does NOT reach the wire is outstanding all the same (the caller holds its future):
#   ["U", kind]    params that JSON cannot represent (nothing is written, the server never counts it)
#   "before": b    b requests issued before start_io, i.e. before a transport exists (futures 0..b-1)
# (requests issued after the pipe broke are the "R" messages after the k-th, esp. with "pad")
UNSENT = ("set", "object", "key", "nested")
FUT_MSGS = "RAELBU"             # message kinds that hand a future to the caller
APIS = ("async", "sync", "cb")  # send_request_async / send_request / send_request with a callback


def unsent_value(kind):
    return {"set": {1, 2, 3}, "object": object(), "key": {(1, 2): 3}, "nested": [{"deep": [object()]}]}[kind]


def nfut(c):
    return c.get("before", 0) + sum(1 for m in c["msgs"] if m[0] in FUT_MSGS)


# ------------------------------------------------------------------------------------------
# implementation side (runs inside the worker process)
# ------------------------------------------------------------------------------------------
def _fut_obs(f):
    if not f.done():
        return ["pending"]
    if f.cancelled():
        return ["cancelled"]
    e = f.exception()
    if e is None:
        r = f.result()
        if isinstance(r, int):
            return ["result", r]
        c = getattr(r, "contents", None)            # typed client: Hover(contents="<v>")
        if isinstance(c, str) and c.lstrip("-").isdigit():
            return ["result", int(c)]
        return ["result", "?" + type(r).__name__]
    from pygls.exceptions import JsonRpcException
    if isinstance(e, JsonRpcException):
        return ["rpcerror", e.code]
    if type(e) is RuntimeError:
        return ["exit"]
    return ["exception", type(e).__name__]


HOOKS = {"ok": 0, "raise": 1, "slow": 2, "await": 3}


def _payload(case, v):
    """a well-formed result for request value v (typed client: a Hover)"""
    return {"contents": str(v)} if case.get("client") == "lsp" else v


async def _run_case(case):
    from pygls.client import JsonRPCClient

    # "pad": KiB of filler per request, so that the outstanding requests exceed what the server's
    # stdin pipe holds (64 KiB): the server dies with undelivered client data, the pipe is lost
    # with an error instead of cleanly
    PAD = "x" * (1024 * case.get("pad", 0))
    hook_log, err_log, hook_done = [], [], []
    hook_entered = asyncio.Event()
    futs, cfuts = [], []            # asyncio futures handed to the caller / the underlying futures

    class HookError(Exception):
        pass

    if case.get("client") == "lsp":
        from lsprotocol import types
        from pygls.lsp.client import BaseLanguageClient
        base, args = BaseLanguageClient, ("c17-client", "v1")
        method = "textDocument/hover"
        def params(n):
            return types.HoverParams(text_document=types.TextDocumentIdentifier(uri="file:///c17.txt" + PAD),
                                     position=types.Position(line=n, character=0))
    else:
        base, args, method = JsonRPCClient, (), "c17/req"
        def params(n):
            return {"n": n, "pad": PAD}

    class Client(base):
        async def server_exit(self, server):
            # what the hook sees when it starts: were the requests it could know of settled?
            seen = all(f.done() for f in cfuts) if case.get("api") in ("sync", "cb") else None
            hook_log.append([server.returncode, seen])
            hook_entered.set()
            try:
                kind = case.get("hook", "ok")
                if kind == "raise":
                    raise HookError("server_exit hook raises")
                if kind == "slow":
                    await asyncio.sleep(0.1)
                if kind == "await" and futs:
                    await asyncio.wait(list(futs))       # wait for the in-flight requests to settle
                hook_done.append("returned" if kind != "raise" else "raised")
            except HookError:
                hook_done.append("raised")
                raise
            # (a hook that is cancelled - its task abandoned - does not complete: nothing appended)

        def report_server_error(self, error, source):
            err_log.append(type(error).__name__)
            if case.get("errhook") == "raise":
                raise HookError("report_server_error hook raises")

    msgs, k = case["msgs"], case["k"]
    ids = case.get("ids") or []
    hstat = {}                      # handlers of server-initiated requests: j -> started/cancelled/finished
    answers = {}
    n = 0
    for m in msgs:
        if m[0] in ("C", "U"):      # (an unsent request is not a message the server receives)
            continue
        n += 1
        if m[0] == "A":
            answers[str(n)] = ["result", _payload(case, m[1])]
        elif m[0] == "E":
            answers[str(n)] = ["error", m[1]]
        elif m[0] == "L":                      # late reply: written just before the exit, not awaited
            answers[str(n)] = ["result", _payload(case, m[1])] if m[1] >= 0 else ["error", m[1]]
        elif m[0] == "B":                      # a reply that names the request but cannot be accepted
            answers[str(n)] = ["bad", m[1]]
    script = {"k": k, "exit": case["exit"], "answers": answers, "srvreq": case.get("srvreq", 0),
              "pre": [PRE[p] for p in case.get("pre", [])], "tail": tail_bytes(case.get("tail", "none"))}
    client = Client(*args)

    @client.feature("c17/slow")
    async def slow_handler(params):
        # a coroutine handler that is still waiting when the server dies
        j = params["j"] if isinstance(params, dict) else getattr(params, "j", len(hstat))
        hstat[j] = "running"
        try:
            await asyncio.sleep(30)
            hstat[j] = "finished"
        except asyncio.CancelledError:
            hstat[j] = "cancelled"
            raise

    obs = {"notes": []}
    t0 = time.monotonic()
    cb_log = []

    def request(m):
        """issue one request through the API shape of the case; the future is in the caller's hands"""
        mid = ids[len(futs)] if len(futs) < len(ids) else None     # caller-chosen id, or uuid
        p = params(len(futs))
        if m[0] == "U":             # params that cannot be turned into JSON: nothing reaches the wire
            p = {"n": len(futs), "bad": unsent_value(m[1])}
        api = case.get("api")
        if api in ("sync", "cb"):
            if api == "cb":
                cf = client.protocol.send_request(method, p, callback=lambda fut: cb_log.append(1), msg_id=mid)
            else:
                cf = client.protocol.send_request(method, p, msg_id=mid)
            cfuts.append(cf)
            f = asyncio.wrap_future(cf)
        else:
            f = client.protocol.send_request_async(method, p, msg_id=mid)
        futs.append(f)
        return f

    try:
        for _ in range(case.get("before", 0)):      # no transport yet
            request(["R"])
        await client.start_io(sys.executable, SERVER, json.dumps(script))
        # the conversation; nothing below yields to the loop except awaiting a scripted reply
        for m in msgs:
            if m[0] == "N":
                client.protocol.notify("c17/note", {"x": 1})
            elif m[0] == "C":                   # the caller cancels request number m[1]
                futs[m[1]].cancel()
            else:
                f = request(m)
                if m[0] in ("A", "E"):
                    try:
                        await asyncio.wait_for(asyncio.shield(f), AWAIT_TIMEOUT)
                    except asyncio.TimeoutError:
                        obs["notes"].append("await-timeout")
                    except Exception:
                        pass
        # wait for the client to notice the exit (bounded); an "early stop" case calls stop() at
        # once instead, while the server may still be alive
        # stop_at: when the caller calls stop() -
        #   after  the client has noticed the exit (hook finished, stop flag set)      [default]
        #   early  at once, the server may still be alive
        #   dead   as soon as the process is known to be dead (the exit watcher may not have run)
        #   hook   while the server_exit hook is in flight (entered, not necessarily finished)
        stop_at = case.get("stop_at") or ("early" if case.get("early_stop") else "after")
        early = stop_at != "after"
        obs["early"] = early
        if stop_at == "after":
            while not client.stopped and time.monotonic() - t0 < CASE_TIMEOUT:
                await asyncio.sleep(0.002)
        elif stop_at == "dead":
            while (getattr(priv.process(client), "returncode", 0) is None
                   and time.monotonic() - t0 < CASE_TIMEOUT):
                await asyncio.sleep(0)
        elif stop_at == "hook":
            try:
                await asyncio.wait_for(hook_entered.wait(), CASE_TIMEOUT)
            except asyncio.TimeoutError:
                pass
        obs["stopped"] = client.stopped
        obs["t_stopped"] = round(time.monotonic() - t0, 3)
        for _ in range(0 if early else 3):     # let the asyncio wrappers of the futures catch up
            await asyncio.sleep(0)
        obs["futs"] = [_fut_obs(f) for f in futs]
        obs["hook"] = list(hook_log)
        # requests sent after the exit was handled (the property is silent about them)
        post = [client.protocol.send_request_async(method, params(100 + i)) for i in range(case.get("post", 0))]
        try:
            await asyncio.wait_for(client.stop(), max(0.2, CASE_TIMEOUT - (time.monotonic() - t0)))
            obs["stop"] = ["returned"]
        except asyncio.TimeoutError:
            obs["stop"] = ["timeout"]
        except Exception as e:
            obs["stop"] = ["raised", type(e).__name__]
        # At the moment stop() returns - before the loop runs anything else - nothing the client
        # started may still be pending (a program may leave its event loop now), and the hook has
        # run to completion exactly once.
        def pending():
            # (a handler task of a server request whose cancellation has been requested by the exit
            # watcher is on its way out: it is accounted for by `handlers_running` below)
            return [t for t in asyncio.all_tasks()
                    if t is not asyncio.current_task() and not t.done()
                    and not (getattr(t.get_coro(), "__name__", "") == "slow_handler" and t.cancelling())]
        obs["tasks"] = ["pending" for t in pending()] if obs["stop"] == ["returned"] else []
        obs["hook_done"] = list(hook_done)
        if early:
            obs["stopped"] = client.stopped
            for _ in range(3):
                await asyncio.sleep(0)
        obs["hook_after_stop"] = list(hook_log)
        obs["futs_after_stop"] = [_fut_obs(f) for f in futs]
        obs["post"] = [_fut_obs(f) for f in post]
        obs["errs"] = len(err_log)
        obs["handlers_running"] = sum(1 for v in hstat.values() if v == "running")
        obs["rc"] = obs["hook_after_stop"][0][0] if obs["hook_after_stop"] else None
        obs["t_total"] = round(time.monotonic() - t0, 3)
    finally:
        srv = priv.process(client)
        tasks = list(priv.async_tasks(client) or [])
        if srv is not None and srv.returncode is None:
            try:
                srv.kill()
            except ProcessLookupError:
                pass
            try:
                await asyncio.wait_for(srv.wait(), 2)
            except Exception:
                pass
        tasks += [t for t in asyncio.all_tasks() if t is not asyncio.current_task()]
        for t in tasks:
            if not t.done():
                t.cancel()
        for t in tasks:
            try:
                await asyncio.wait_for(t, 1)
            except BaseException:
                pass
        for f in futs:
            if not f.done():
                f.cancel()
    return obs


def _anchored():
    """(file, first line, last line) of the anchored functions, located by inspection so that
    the ranges follow the source."""
    import inspect
    import pygls.client, pygls.io_
    out = []
    C = pygls.client.JsonRPCClient
    # (coverage evidence only: an anchored private method that has been renamed is simply not counted)
    for fn in (C.start_io, getattr(C, "_server_exit", None), C.stop, getattr(C, "_report_server_error", None),
               pygls.io_.run_async):
        if fn is None:
            continue
        src, first = inspect.getsourcelines(fn)
        out.append((inspect.getsourcefile(fn), fn.__name__, first, first + len(src) - 1))
    return out


def _worker():
    logging.disable(logging.CRITICAL)
    cov = None
    if os.environ.get("C17_COVERAGE"):
        import coverage
        anch = _anchored()
        cov = coverage.Coverage(data_file=None, include=sorted({a[0] for a in anch}))
        cov.start()
    try:
        _worker_loop()
    finally:
        if cov is not None:
            cov.stop()
            rep = {}
            for f, name, lo, hi in anch:
                _, stmts, _, missing, _ = cov.analysis2(f)
                st = [l for l in stmts if lo < l <= hi]
                rep[os.path.basename(f) + ":" + name] = {"statements": st,
                                                         "missing": [l for l in missing if lo < l <= hi]}
            sys.stdout.write(json.dumps({"__coverage__": rep}) + "\n")
            sys.stdout.flush()


class _Watchdog(BaseException):
    pass


def _worker_loop():
    def on_alarm(signum, frame):
        raise _Watchdog()
    signal.signal(signal.SIGALRM, on_alarm)
    slow = 0                    # consecutive cases that ran into the time bound
    for line in sys.stdin:
        line = line.strip()
        if not line:
            continue
        if slow >= 3:
            # the implementation hangs on everything: do not spend the bound on every remaining case
            sys.stdout.write(json.dumps({"hang": True, "skipped": "3 consecutive cases hit the time bound"}) + "\n")
            sys.stdout.flush()
            continue
        case = json.loads(line)
        loop = asyncio.new_event_loop()
        asyncio.set_event_loop(loop)
        signal.alarm(int(CASE_TIMEOUT) + 5)      # also catches a loop that never yields
        try:
            try:
                obs = loop.run_until_complete(asyncio.wait_for(_run_case(case), CASE_TIMEOUT + 3))
            except (asyncio.TimeoutError, _Watchdog):
                obs = {"hang": True}
            except Exception as e:
                obs = {"raise": type(e).__name__, "msg": str(e)[:200]}
        finally:
            signal.alarm(0)
            try:
                loop.run_until_complete(loop.shutdown_asyncgens())
            except BaseException:
                pass
            try:
                loop.close()
            except BaseException:
                pass
        slow = slow + 1 if ("hang" in obs or obs.get("t_total", 0) >= CASE_TIMEOUT) else 0
        sys.stdout.write(json.dumps(obs) + "\n")
        sys.stdout.flush()


if __name__ == "__main__" and "--worker" in sys.argv:
    _worker()
    sys.exit(0)


# ------------------------------------------------------------------------------------------
# the check (parent process)
# ------------------------------------------------------------------------------------------
import core  # noqa: E402


def valid(c):
    """A case the scripted server and the deterministic mapping to events can handle."""
    if c.get("before", 0) not in (0, 1, 2, 3):
        return False
    n, nf, dead = 0, c.get("before", 0), c["k"] == 0
    for m in c["msgs"]:
        t = m[0]
        if t == "C":
            if not (0 <= m[1] < nf):
                return False
            continue
        if t == "U":
            # (a raising report_server_error override raises out of send_request: no future is handed out)
            if len(m) != 2 or m[1] not in UNSENT or c.get("errhook") == "raise":
                return False
            nf += 1
            continue
        if t not in ("R", "N", "A", "E", "L", "B"):
            return False
        if t == "B" and (m[1] not in ("errshape", "version", "badresult")
                         or (m[1] == "badresult" and c.get("client") != "lsp")):
            return False
        if dead and t not in ("R", "N"):
            return False
        n += 1
        if t != "N":
            nf += 1
        if n == c["k"]:
            if t in ("A", "E"):
                return False          # an awaited reply racing with the exit: not deterministic
            dead = True
    ids = [i for i in (c.get("ids") or []) if i is not None]
    if len(set(map(repr, ids))) != len(ids) or len(c.get("ids") or []) > nf:
        return False                  # caller-chosen ids must be distinct (7 and "7" are)
    return (dead and c["exit"] in EXIT_RC and is_tail(c.get("tail", "none"))
            and c.get("hook", "ok") in HOOKS and c.get("client", "plain") in ("plain", "lsp")
            and c.get("api", "async") in APIS and c.get("srvreq", 0) in (0, 1, 2)
            and c.get("stop_at", "after") in ("after", "early", "dead", "hook")
            and c.get("pad", 0) in (0, 16, 48))


def events(c):
    """The conversation as model events (everything the caller and the server do before the
    caller yields to wait for the exit to be noticed)."""
    evs = [[0] for _ in range(c.get("before", 0))]
    for j in range(c.get("srvreq", 0)):
        evs.append([2, 4, j])
    for p in c.get("pre", []):
        evs.append([2, 1] if p == "bad" else [2, 2])
    rc, tc = EXIT_RC[c["exit"]], tail_class(c.get("tail", "none"))
    if c["k"] == 0:
        evs.append([3, rc, tc])
    n, nf = 0, c.get("before", 0)
    for m in c["msgs"]:
        t = m[0]
        if t == "C":
            evs.append([1, m[1]])
            continue
        if t == "U":
            evs.append([0])
            nf += 1
            continue
        n += 1
        if t == "N":
            pass
        else:
            evs.append([0])
            if t in ("A", "L") and m[1] >= 0:
                evs.append([2, 0, nf, 0, m[1]])
            elif t in ("E", "L"):
                evs.append([2, 0, nf, 1, m[1]])
            elif t == "B":
                evs.append([2, 3, nf])
            if t in ("A", "E"):
                evs.append([4])
            nf += 1
        if n == c["k"]:
            evs.append([3, rc, tc])
    return evs


def outstanding(c):
    """Requests neither answered-and-read nor cancelled when the server dies."""
    st = ["R"] * c.get("before", 0)
    n = 0
    for m in c["msgs"]:
        if m[0] == "C":
            if st[m[1]] == "R":
                st[m[1]] = "C"
            continue
        n += 1
        if m[0] != "N":
            st.append("R" if m[0] in ("R", "L", "B", "U") else "A")
    return sum(1 for x in st if x == "R")


FSTATE = {"pending": 0, "result": 1, "rpcerror": 2, "exit": 3, "cancelled": 4}
EXN = {1: "IncompleteReadError", 2: "HookError"}


def canon_fut(f):
    k = FSTATE.get(f[0])
    if k is None:
        return [9, f[1] if len(f) > 1 else 0]
    if k in (1, 2):
        return [k, f[1]]
    return [k, 0]


def canon_impl(o, nf):
    if "futs" not in o or "stop" not in o:
        return {"crash": {k: o[k] for k in o if k in ("hang", "raise", "msg")}}
    early = o.get("early")
    return {
        "futs": [canon_fut(f) for f in (o["futs_after_stop"] if early else o["futs"])],
        "hook": o["hook_after_stop"] if early else o["hook"], "stopped": o["stopped"],
        "t": [o.get("t_stopped"), o.get("t_total")],
        "hrun": o.get("handlers_running", 0),
        "hook_done": len(o.get("hook_done", [])),
        "stop": o["stop"] if o["stop"][0] != "raised" else ["raised", o["stop"][1]],
        "errs": o["errs"],
        "futs2": [canon_fut(f) for f in o["futs_after_stop"]],
        "hook2": o["hook_after_stop"],
        "post": [canon_fut(f) for f in o["post"]],
        "clean": not o["tasks"] and not o.get("notes"),
    }


class _Toks:
    def __init__(self, t):
        self.t, self.i = [int(x) for x in t], 0
    def int(self):
        self.i += 1
        return self.t[self.i - 1]
    def list(self, f):
        return [f() for _ in range(self.int())]
    def fstate(self):
        k, v = self.int(), self.int()
        return [k, v if k in (1, 2) else 0]
    def keyed(self, f):
        """a list of (id, x) pairs with ids 0..n-1 in order -> [x]"""
        l = self.list(lambda: (self.int(), f()))
        assert [i for i, _ in l] == list(range(len(l))), "ids are not 0..n-1"
        return [x for _, x in l]
    def obs(self):
        futs = self.keyed(self.fstate)
        hooks = self.list(lambda: [self.int(), bool(self.int())])
        stopped = bool(self.int())
        st, ex = self.int(), self.int()
        stop = ["returned"] if st == 0 else ["raised", EXN[ex]] if st == 1 else ["timeout"]
        errs = self.int()
        hts = self.list(lambda: (self.int(), self.int()))
        return {"futs": futs, "hook": hooks, "stopped": stopped, "stop": stop, "errs": errs,
                "hrun": sum(1 for _, h in hts if h in (0, 1)), "htasks": [h for _, h in hts]}
    def expect(self):
        k = self.int()
        f = self.fstate()
        return [k, f]


def fut_ok(e, f):
    """Python twin of Spec.ClientSpec.fut_ok (cross-checked against the extracted one on every case)."""
    k, g = e
    if k == 0:
        return f[0] == 3
    if k == 1:
        return f == g
    if k == 2:
        return f[0] == 3 or f == g
    if k == 3:
        return f[0] != 0
    return True


class C17(core.Property):
    id = "C17"
    modules = ["Proofs.ClientProofs", "Proofs.ClientBounded", "Props.C17", "Proofs.LinkClientFraming"]
    obligations = ["inv_init", "inv_step", "inv_run", "done_stable", "resolved_kept", "fail_all_done",
                   "fail_all_pending", "fail_all_all_done", "server_exit_enter", "hook_resumes",
                   "exit_task_fires", "reader_ends", "client_exit",
                   "exit_fails_all_outstanding", "hook_once", "stopped_set", "stop_returns", "spec_ok_iff",
                   "reference_agrees", "conv_expect_sound_bounded", "conv_expect_sound_bounded_handlers",
                   "fail_loop_fixed", "fail_loop_le", "C17", "C17_nonvacuous", "C17_pinned_refuted_handler_task",
                   "C17_handler_task_cancelled",
                   "stop_returns_iff", "stop_waits_for_hook", "stop_returned_hook_completed",
                   # link to the byte-level read loop of C02 / C15 (Model/Framing.v)
                   "framing_delivers_items", "client_consumes_items", "link_client_framing", "link_reader_run",
                   "link_pinned_cut_body", "framing_cut_body_at_readexactly", "link_nonvacuous",
                   "C17_late_send_stays_pending", "C17_pinned_refuted_eof", "C17_pinned_refuted_errhook",
                   "C17_reference_agrees"]
    coq_targets = ["Props/C17.vo", "Extract/ExtractC17.vo", "Proofs/LinkClientFraming.vo"]
    rule = ("a case is one scripted server process (exit after the k-th received message with status 0 / 1 / "
            "SIGKILL, optional partial header / partial body / junk tail, optional complete bad frames) driven "
            "by the real JsonRPCClient.start_io (plain or typed BaseLanguageClient) with a conversation of answered, "
            "unanswered, late-answered, undecodably answered, cancelled and never-sent (params JSON cannot represent; issued before the transport exists) requests through send_request_async / send_request / send_request with callback, 0-2 coroutine handlers of server "
            "requests still running at the exit (uuid or caller-chosen int / str "
            "ids) and notifications, server_exit hook returning / raising / sleeping / awaiting the requests, stop() called before the exit / once the process is dead / while the hook is in flight / after it; non-trivial = at least one request outstanding at the exit "
            "or a partial frame written")
    trusted_base = ["Coq 8.16.1 kernel incl. vm_compute (refutation witnesses, Examples)",
                    "extraction with ExtrOcamlBasic only + ocaml/c17_driver.ml + conv_io/conv_n/conv_z",
                    "harness/c17.py (generators, mapping of a scripted conversation to model events, canonicalisation), "
                    "harness/servers/c17_server.py",
                    "modelled not verified: asyncio task = atomic run between suspension points; StreamReader.readline "
                    "returns at LF or EOF, readexactly raises IncompleteReadError at EOF; concurrent.futures.Future "
                    "set_result/set_exception/cancel state rules; gather re-raises the first task exception; "
                    "complete frames become available to the reader whole",
                    "not modelled (observed only, with a 5 s bound per case): OS process exit and pipe closure, "
                    "Process.wait(), child watcher, wall-clock promptness",
                    priv.trusted(["client.process", "client.async_tasks"])]
    private = ["client.process", "client.async_tasks"]
    assumptions = ["request ids are fresh (uuid4; the model allocates 0,1,2,...)",
                   "the server_exit / report_server_error overrides raise at most Exception subclasses; a suspending "
                   "server_exit hook waits on a timer or on the requests it knows of",
                   "caller-chosen request ids are distinct",
                   "no done-callback of a request future sends a new request",
                   "the server's pipes are not inherited by a surviving grandchild"]

    # ---------------- generation ----------------
    def _mixed(self, rng, n, k, exit_, tail, rich=True):
        msgs, nf = [], 0
        for pos in range(1, n + 1):
            if pos < k:
                t = rng.choice("AERRLN" if rich else "R")
            elif pos == k:
                t = rng.choice("RRLN" if rich else "R")
            else:
                t = rng.choice("RRRN" if rich else "R")
            if rich and t == "R" and pos <= k and rng.random() < 0.25:
                t = "B"         # answered, but with something the client cannot accept
                msgs.append(["B", rng.choice(["errshape", "version"])])
            elif t == "A":
                msgs.append(["A", rng.randint(0, 99)])
            elif t == "E":
                msgs.append(["E", rng.choice([-32000, -32603, -32601, 1, 42])])
            elif t == "L":
                msgs.append(["L", rng.choice([rng.randint(0, 99), -32000])])
            else:
                msgs.append([t])
            if t != "N":
                nf += 1
            if rich and nf and rng.random() < 0.15:
                msgs.append(["C", rng.randrange(nf)])
        return {"msgs": msgs, "k": k, "exit": exit_, "tail": tail}

    ID_POOL = [0, 7, 2 ** 53, -1, 1, "", "a", "7", "0", "id with space"]

    def _decorate(self, rng, c):
        """caller-chosen request ids of both JSON types, what the server_exit hook does, which API
        handed out the futures, plain or typed client"""
        nf = nfut(c)
        r = rng.random()
        if nf and r < 0.5:
            pool = rng.sample(self.ID_POOL, min(nf, len(self.ID_POOL)))
            c["ids"] = [pool[i] if i < len(pool) and rng.random() < 0.7 else None for i in range(nf)]
        if "hook" not in c:
            c["hook"] = rng.choice(["ok", "ok", "raise", "slow", "await", "await"])
        if rng.random() < 0.3:
            c["srvreq"] = rng.randint(1, 2)     # coroutine handlers of server requests still running at the exit
        if nf >= 2 and rng.random() < 0.2:
            c["pad"] = rng.choice([16, 48])     # more outbound data than the server's stdin pipe holds
        if rng.random() < 0.5:
            c["api"] = rng.choice(["sync", "sync", "cb"])
        if rng.random() < 0.3:
            c["client"] = "lsp"
            c["msgs"] = [["B", "badresult"] if (m[0] == "B" and rng.random() < 0.5) else m for m in c["msgs"]]
        return c

    def generate(self, chk):
        cases = []
        cdir = os.path.join(core.ROOT, "corpus", "C17")
        if os.path.isdir(cdir):
            for f in sorted(os.listdir(cdir)):
                if f.endswith(".json"):
                    cases.extend(json.load(open(os.path.join(cdir, f))))
        rng = chk.rng
        exits, tails = ["0", "1", "kill"], list(TAILS)
        # (1) n outstanding requests, exit after the k-th message: the quantifier's grid
        grid = []
        for n in range(0, 9):
            for k in range(0, n + 1):
                for e in exits:
                    for t in tails:
                        grid.append((n, k, e, t))
        if chk.quick:
            pick = [(n, k, exits[(n + k + i) % 3], tails[(2 * n + k + i) % len(tails)])
                    for i, n in enumerate([0, 1, 2, 3, 5, 8]) for k in sorted({0, (n + 1) // 2, n})]
            pick += rng.sample(grid, 24)
        else:
            pick = grid
        for j, (n, k, e, t) in enumerate(pick):
            c = {"msgs": [["R"]] * n, "k": k, "exit": e, "tail": t}
            if j % 2:
                self._decorate(rng, c)
            cases.append(c)
        # (1b) a partial frame at every byte offset of its header block (three layouts) and inside its
        # body, with two requests outstanding
        hb = len(CUT_HEADERS["cl"])
        if chk.quick:
            cuts = cut_tails("cl", body_sample=[hb, hb + 1, hb + len(CUT_BODY) - 1])
            for lay in ("clct", "ctcl"):
                h = len(CUT_HEADERS[lay])
                # the offsets around every line boundary and colon of the block, plus a seeded sample
                marks = {i + d for i, ch in enumerate(CUT_HEADERS[lay]) if ch in ":\r\n" for d in (0, 1, 2)}
                offs = sorted(o for o in marks | set(rng.sample(range(1, h), 6)) if 1 <= o < h)
                cuts += ["cut/%s/%d" % (lay, o) for o in offs] + ["cut/%s/%d" % (lay, h + 3)]
        else:
            cuts = [t for lay in CUT_HEADERS for t in cut_tails(lay)]
        for j, t in enumerate(cuts):
            cases.append({"msgs": [["R"], ["R"]], "k": j % 3, "exit": exits[j % 3], "tail": t})
        # (1c) the server dies with undelivered client data in (and behind) its stdin pipe
        for j, (n, k) in enumerate([(8, 0), (8, 1), (8, 2), (4, 1), (3, 3)] if chk.quick else
                                   [(n, k) for n in (2, 3, 4, 8) for k in range(0, n + 1)]):
            cases.append({"msgs": [["R"]] * n, "k": k, "exit": exits[j % 3], "tail": tails[j % len(tails)],
                          "pad": 48, "hook": ["ok", "slow", "await"][j % 3]})
        # (1d) requests outstanding at the exit whose sending did not reach the wire: params JSON cannot
        # represent (at every position relative to the crash point), requests issued before a transport
        # exists, through each of the three requester shapes, plain and typed client
        j = 0
        for api in APIS:
            for kind in (UNSENT[:2] if chk.quick else UNSENT):
                for n, k, at in ([(0, 0, 0), (2, 1, 0), (2, 2, 1), (3, 1, 3)] if chk.quick else
                                 [(n, k, at) for n in (0, 1, 2, 3) for k in range(n + 1) for at in range(n + 1)]):
                    msgs = [["R"]] * n
                    c = {"msgs": msgs[:at] + [["U", kind]] + msgs[at:], "k": k, "exit": exits[j % 3],
                         "tail": tails[j % len(tails)], "api": api}
                    if j % 4 == 3:
                        c["client"] = "lsp"
                    if j % 5 == 4:
                        c["hook"] = "await"
                    cases.append(c)
                    j += 1
            for b, n, k in ([(1, 0, 0), (2, 2, 1)] if chk.quick else
                            [(b, n, k) for b in (1, 2, 3) for n in (0, 1, 2) for k in range(n + 1)]):
                cases.append({"msgs": [["R"]] * n, "k": k, "exit": exits[j % 3], "tail": tails[j % len(tails)],
                              "api": api, "before": b})
                j += 1
        # the remaining generated conversations end in a partial frame at a random offset now and then
        tails = tails + [rng.choice(cut_tails(rng.choice(list(CUT_HEADERS)))) for _ in range(4)]
        # (2) mixed conversations: answered / error-answered / late-answered / cancelled / notifications
        for _ in range(chk.n(60, 2500)):
            n = rng.choice([1, 2, 3, 4, 5, 6, 8, 10])
            c = self._mixed(rng, n, rng.randint(0, n), rng.choice(exits), rng.choice(tails))
            r = rng.random()
            if r < 0.25:
                c["hook"] = "raise"
            if r > 0.6:
                c["pre"] = [rng.choice(["bad", "junk"]) for _ in range(rng.randint(1, 2))]
                if rng.random() < 0.5:
                    c["errhook"] = "raise"
            if rng.random() < 0.15:
                c["post"] = rng.randint(1, 2)
            elif rng.random() < 0.45:
                c["stop_at"] = rng.choice(["early", "dead", "hook", "hook"])
            if c.get("errhook") != "raise" and rng.random() < 0.3:
                for _ in range(rng.randint(1, 2)):      # unsent requests anywhere in the conversation
                    # (not between a cancellation and the request it names)
                    at = rng.choice([i for i in range(len(c["msgs"]) + 1)
                                     if not any(m[0] == "C" for m in c["msgs"][i:])] or [len(c["msgs"])])
                    c["msgs"] = c["msgs"][:at] + [["U", rng.choice(UNSENT)]] + c["msgs"][at:]
            if rng.random() < 0.1:
                c["before"] = rng.randint(1, 2)
                c["msgs"] = [["C", m[1] + c["before"]] if m[0] == "C" else m for m in c["msgs"]]
            self._decorate(rng, c)
            cases.append(c)
        out = []
        for c in cases:
            if valid(c):
                out.append(c)
            else:
                chk.notes.append("generator produced an invalid case: " + json.dumps(c))
        return out

    # ---------------- implementation ----------------
    def run_impl(self, chk, cases):
        nproc = min(4, max(1, len(cases)))
        chunks = [cases[i::nproc] for i in range(nproc)]
        env = dict(os.environ)
        env["PYTHONPATH"] = core.REPO
        if not chk.quick:
            env["C17_COVERAGE"] = "1"
        procs = []
        for ch in chunks:
            p = subprocess.Popen([core.PY, os.path.abspath(__file__), "--worker"], stdin=subprocess.PIPE,
                                 stdout=subprocess.PIPE, stderr=subprocess.DEVNULL, text=True, env=env,
                                 start_new_session=True)
            procs.append(p)
        import threading
        outs = [None] * nproc
        def feed(i):
            try:
                # worst case every case runs into its time bound
                o, _ = procs[i].communicate("".join(json.dumps(c) + "\n" for c in chunks[i]),
                                            timeout=30 + len(chunks[i]) * (CASE_TIMEOUT + 5))
                outs[i] = o
            except subprocess.TimeoutExpired:
                outs[i] = ""
            finally:
                try:
                    os.killpg(procs[i].pid, signal.SIGKILL)      # the worker and any server left behind
                except (ProcessLookupError, PermissionError):
                    pass
                try:
                    procs[i].wait(5)
                except Exception:
                    pass
        ths = [threading.Thread(target=feed, args=(i,)) for i in range(nproc)]
        for t in ths:
            t.start()
        for t in ths:
            t.join()
        res = [None] * len(cases)
        timing = getattr(self, "_timing", [])
        for i, ch in enumerate(chunks):
            lines = [l for l in (outs[i] or "").split("\n") if l.strip()]
            if lines and lines[-1].startswith('{"__coverage__"'):
                rep = json.loads(lines.pop())["__coverage__"]
                covd = self.__dict__.setdefault("_cov", {})
                for k, v in rep.items():
                    d = covd.setdefault(k, {"statements": set(), "missing": None})
                    d["statements"] |= set(v["statements"])
                    d["missing"] = set(v["missing"]) if d["missing"] is None else d["missing"] & set(v["missing"])
            for j, c in enumerate(ch):
                try:
                    o = json.loads(lines[j])
                except Exception:
                    o = {"hang": True}
                if "t_stopped" in o:
                    timing.append((o["t_stopped"], o["t_total"]))
                nf = nfut(c)
                res[i + j * nproc] = canon_impl(o, nf)
        self._timing = timing
        return res

    # ---------------- model ----------------
    def cfg(self, c):
        return "1 1 1 %d %d" % (HOOKS[c.get("hook", "ok")], c.get("errhook") == "raise")

    def model_input(self, c):
        return self._conv_line(c, events(c))

    def _conv_line(self, c, evs):
        evs = list(evs)
        stop_at = c.get("stop_at") or ("early" if c.get("early_stop") else "after")
        if stop_at == "early":
            evs.append([6])
        flat = " ".join(" ".join(map(str, e)) for e in evs)
        return (f"conv {self.cfg(c)} {len(evs)} {flat} {c.get('post', 0)} {c.get('srvreq', 0)} "
                f"{ {'hook': 1, 'dead': 2}.get(stop_at, 0) }")

    def model_output(self, c, toks):
        guard, exps, M = self._parse_conv(c, toks)
        return {"M": M, "S": {"exp": exps, "hooks": 1, "stopped": True, "stop": ["returned"]},
                "guard": guard, "klass": None}

    def prefix_schedules(self, c):
        """The driver's two orders are the extremes: when the caller yields, the reader consumes EVERYTHING the
        server wrote (A) or the exit watcher / stop() runs first (B).  What the server writes after the caller
        last waited for a reply (late replies, unacceptable replies, its own requests) reaches the client in
        as many pieces as the OS delivers: the reader may have consumed any PREFIX of those frames - it then
        blocks - when the watcher (or stop()) runs.  These are schedules of the same model: the conversation
        with one ReaderRun inserted after the j-th such frame, then the driver's orders.  Computed only for a
        case whose observation is neither A nor B; S (the expectation per future) is not touched.
        -> {name: model observation}"""
        evs = events(c)
        exit_at = next((i for i, e in enumerate(evs) if e[0] == 3), len(evs))
        last_wait = max([i for i, e in enumerate(evs[:exit_at]) if e == [4]], default=-1)
        cuts = [i for i in range(last_wait + 1, exit_at) if evs[i][0] == 2]          # SrvWrite events
        if not cuts:
            return {}
        lines = [self._conv_line(c, evs[:i + 1] + [[4]] + evs[i + 1:]) for i in cuts]
        out = {}
        for j, toks in enumerate(core.run_driver("C17", lines)):
            _, _, M = self._parse_conv(c, toks)
            for order, m in M.items():
                out["prefix%d%s" % (j + 1, order)] = m
        return out

    def _parse_conv(self, c, toks):
        t = _Toks(toks)
        guard = bool(t.int())
        exps = t.keyed(t.expect)
        nf = nfut(c)
        M = {}
        for order in ("A", "B"):
            o1, o2 = t.obs(), t.obs()
            ok = bool(t.int())
            if c.get("api") not in ("sync", "cb"):      # the underlying futures are not in the caller's hands
                for o in (o1, o2):
                    o["hook"] = [[rc, None] for rc, _ in o["hook"]]
            M[order] = {"futs": o1["futs"], "hook": o1["hook"], "stopped": o1["stopped"], "stop": o2["stop"],
                        "errs": o2["errs"], "futs2": o2["futs"][:nf], "hook2": o2["hook"],
                        "post": o2["futs"][nf:], "clean": True, "hrun": o2["hrun"],
                        "hook_done": 1 if o2["stop"] == ["returned"] else 0, "_spec_ok": ok,
                        "_htasks": o2["htasks"]}
        return guard, exps, M

    def satisfies(self, c, impl, S):
        if "crash" in impl:
            return False
        exps = S["exp"]
        nf = len(impl["futs"])
        alls = impl["futs2"] + impl["post"]
        return (len(exps) == len(alls)
                and all(fut_ok(e, f) for e, f in zip(exps[:nf], impl["futs"]))     # at once, before stop()
                and all(fut_ok(e, f) for e, f in zip(exps, alls))                  # and still after it
                and len(impl["hook"]) == 1 and len(impl["hook2"]) == 1
                and impl["hook_done"] == 1          # entered once AND run to completion when stop() returns
                and impl["stopped"] is True and impl["stop"] == ["returned"] and impl["clean"])

    # not property-level: how often report_server_error was called, and what happens to requests
    # sent after the exit has been handled (recorded in the observation, never compared)
    NOT_COMPARED = ("errs", "post", "t")

    def same(self, c, impl, M):
        if "crash" in impl:
            return False
        i = {k: v for k, v in impl.items() if k not in self.NOT_COMPARED}

        def among(Ms):
            for order in sorted(Ms):
                m = {k: v for k, v in Ms[order].items() if not k.startswith("_") and k not in self.NOT_COMPARED}
                if i == m:
                    self._orders = getattr(self, "_orders", {})
                    key = order if order in ("A", "B") else "prefix"
                    self._orders[key] = self._orders.get(key, 0) + 1
                    return True
            return False
        # the two extreme schedules first; only then the ones in between (a prefix of the frames the server
        # wrote last was consumed before the watcher / stop() ran)
        return among(M) or among(self.prefix_schedules(c))

    def nontrivial(self, c):
        return outstanding(c) >= 1 or tail_class(c.get("tail", "none")) in (1, 2)

    def shrink(self, c):
        def without(i):
            msgs = c["msgs"]
            m = msgs[i]
            d = dict(c)
            if m[0] == "C":
                d["msgs"] = msgs[:i] + msgs[i + 1:]
                return d
            pos = sum(1 for x in msgs[:i + 1] if x[0] not in ("C", "U"))
            fidx = c.get("before", 0) + sum(1 for x in msgs[:i] if x[0] in FUT_MSGS)
            new = []
            for j, x in enumerate(msgs):
                if j == i:
                    continue
                if x[0] == "C" and m[0] != "N":
                    if x[1] == fidx:
                        continue
                    if x[1] > fidx:
                        x = ["C", x[1] - 1]
                new.append(x)
            d["msgs"] = new
            if m[0] != "N" and c.get("ids"):
                d["ids"] = c["ids"][:fidx] + c["ids"][fidx + 1:]
            if pos <= c["k"] and m[0] != "U":
                d["k"] = c["k"] - 1
            return d
        for i in range(len(c["msgs"]) - 1, -1, -1):
            d = without(i)
            if valid(d):
                yield d
        # (the hook kind is never shrunk away: a deadlock in an awaiting hook would degrade to a
        # mere difference in what a trivial hook sees)
        for key in ("pre", "post", "errhook", "early_stop", "stop_at", "client", "api", "srvreq", "pad"):
            if c.get(key):
                d = dict(c); d.pop(key)
                if valid(d):
                    yield d
        if c.get("before") and not any(m[0] == "C" for m in c["msgs"]):
            d = dict(c); d["before"] = c["before"] - 1
            if c.get("ids"):
                d["ids"] = c["ids"][1:]
            if valid(d):
                yield d
        ids = c.get("ids") or []
        for j, x in enumerate(ids):
            if x is not None:
                d = dict(c); d["ids"] = ids[:j] + [None] + ids[j + 1:]
                yield d
        if ids and all(x is None for x in ids):
            d = dict(c); d.pop("ids")
            yield d
        if c.get("tail", "none") != "none" and tail_class(c["tail"]) != 2:
            d = dict(c); d["tail"] = "none"
            yield d
        if c["exit"] != "0":
            d = dict(c); d["exit"] = "0"
            yield d
        for i, m in enumerate(c["msgs"]):
            if m[0] in ("A", "E", "L", "N"):
                d = dict(c); d["msgs"] = c["msgs"][:i] + [["R"]] + c["msgs"][i + 1:]
                if valid(d):
                    yield d

    def search(self, chk):
        """The property's bounded scope on the implementation, judged by S."""
        cases = []
        for n in (0, 1, 2, 3):
            for k in range(n + 1):
                for e in ("0", "1", "kill"):
                    for t in TAILS:
                        cases.append({"msgs": [["R"]] * n, "k": k, "exit": e, "tail": t})
        for api in APIS:
            for n in (0, 1, 2):
                for k in range(n + 1):
                    cases.append({"msgs": [["R"]] * n + [["U", "set"]], "k": k, "exit": "0", "tail": "none", "api": api})
                    cases.append({"msgs": [["R"]] * n, "k": k, "exit": "0", "tail": "none", "api": api, "before": 1})
        try:
            res = core.evaluate(self, chk, cases)
        except Exception:
            return []
        return [r for r in res if r["verdict"] == "violation"][:1]

    def extra_checks(self, chk):
        """Runtime clauses: nothing left behind; how promptly the exit was noticed (recorded)."""
        viol = []
        # driver / extraction sanity: the event list of Example C17_nonvacuous (kernel-checked in
        # Props/C17.v) through the binary must give the values stated there
        line = ("run 1 1 1 3 1 19 0 2 0 0 0 7 4 0 1 1 0 2 3 2 4 0 2 1 2 0 3 1 -32000 0 3 -9 2 0 6 5 0 4 5")
        t = _Toks(core.run_driver("C17", [line])[0])
        o = t.obs()
        want = {"futs": [[1, 7], [4, 0], [3, 0], [3, 0], [3, 0], [3, 0], [0, 0]], "hook": [[-9, True]],
                "stopped": True, "stop": ["returned"], "errs": o["errs"], "hrun": 0, "htasks": []}
        if o != want:
            viol.append({"case": {"sanity": line}, "impl": o, "S": want, "verdict": "violation",
                         "suffix": "no-failing-input-found"})
        def orphans():
            # scripted servers whose parent (a worker of this or of a concurrent check) is gone
            r = subprocess.run(["pgrep", "-f", SERVER], capture_output=True, text=True)
            out = set()
            for p in r.stdout.split():
                try:
                    ppid = int(open(f"/proc/{p}/stat").read().rsplit(")", 1)[1].split()[1])
                    cmd = open(f"/proc/{ppid}/cmdline").read() if ppid > 1 else ""
                except Exception:
                    continue
                if "c17.py" not in cmd:
                    out.add(p)
            return out
        left = orphans()
        if left:
            time.sleep(0.5)
            left &= orphans()
        left = sorted(left)
        timing = getattr(self, "_timing", [])
        self.extra_coverage = {
            "runtime_observed_only": "process exit / pipe closure / promptness are not in the model: every case ran "
                                     "under a 5 s bound",
            "max_seconds_until_stopped": max([t[0] for t in timing], default=None),
            "max_seconds_per_case": max([t[1] for t in timing], default=None),
            "cases_timed": len(timing),
            "schedule_observed": getattr(self, "_orders", {}),
            "server_processes_left_behind": len(left),
        }
        covd = getattr(self, "_cov", None)
        if covd:
            self.extra_coverage["anchored_lines"] = sum(len(v["statements"]) for v in covd.values())
            self.extra_coverage["anchored_lines_executed"] = sum(len(v["statements"]) - len(v["missing"] or ())
                                                                 for v in covd.values())
            self.extra_coverage["anchored_lines_never_executed"] = {k: sorted(v["missing"] or ())
                                                                    for k, v in covd.items() if v["missing"]}
        if left:
            viol.append({"case": {"leftover_server_pids": left}, "impl": "server processes left behind",
                         "S": "none", "verdict": "violation"})
        return viol

    def distribution(self, cases):
        d = {}
        for c in cases:
            for key in ("exit:" + c["exit"], "tail:" + (c.get("tail", "none") if c.get("tail", "none") in TAILS
                                   else "cut/%s/%s" % (_cut(c["tail"])[0], ("header", "header", "body")[min(tail_class(c["tail"]), 2)])), "k:%d" % min(c["k"], 9),
                        "outstanding:%d" % min(outstanding(c), 9),
                        "hook:" + c.get("hook", "ok"), "errhook:" + c.get("errhook", "ok"),
                        "pre:%d" % len(c.get("pre", [])), "post:%d" % c.get("post", 0),
                        "api:" + c.get("api", "async"), "before:%d" % c.get("before", 0), "client:" + c.get("client", "plain"),
                        "srvreq:%d" % c.get("srvreq", 0), "pad:%d" % c.get("pad", 0),
                        "ids:" + ("chosen" if any(i is not None for i in c.get("ids") or []) else "uuid"),
                        "stop_at:" + (c.get("stop_at") or ("early" if c.get("early_stop") else "after"))):
                d[key] = d.get(key, 0) + 1
            for m in c["msgs"]:
                d["msg:" + m[0]] = d.get("msg:" + m[0], 0) + 1
        return d


PROPERTY = C17
