"""C03 - outbound bytes are whole, byte-accurate, uninterleaved frames.

Drives the real JsonRPCProtocol / LanguageServerProtocol (`notify`, `send_request`, and the private
response / raw-data senders located by harness/priv.py) with recording / gating writers and the real StdoutWriter / WebSocketWriter classes of
pygls.io_; the model is Model/Wire.v + Base/Json.v, the reference Spec/WireSpec.v, both through
bin/c03_driver.  impl = M compares the exact sequence of transport operations (number of write
calls per message, their bytes, the flushes); impl |= S is judged by an independent strict decoder
and JSON reader written in Python below (themselves cross-checked against the Coq spec_decode /
loads on mutated streams on every run)."""
import asyncio, enum, json, logging, os, resource, threading, time
import core
import priv


def _raise_stack_limit():
    """The extracted model recurses once per list element (no tail calls in extracted code): a body of
    several hundred KiB needs more than the default 8 MiB stack.  The soft limit is inherited by the
    driver process; threads of this process keep the size fixed at start-up."""
    want = 2 << 30
    soft, hard = resource.getrlimit(resource.RLIMIT_STACK)
    if soft != resource.RLIM_INFINITY and soft < want:
        new = want if hard == resource.RLIM_INFINITY or hard >= want else hard
        try:
            resource.setrlimit(resource.RLIMIT_STACK, (new, hard))
        except (ValueError, OSError):
            pass


_raise_stack_limit()

WR = {"none": 0, "plain": 1, "stdout": 2, "await": 3}
TMO = 20.0           # every wait in this file is bounded by this many seconds


# ------------------------------------------------------------------ case encoding
def S(x):
    return {"s": [ord(c) for c in x] if isinstance(x, str) else list(x)}


class Unser(Exception):
    pass


def tok_str(cps):
    return f"{len(cps)} " + " ".join(map(str, cps)) if cps else "0"


def tok_tree(t):
    """payload tree -> driver tokens (the JSON tree json.dumps sees after default=...)"""
    if t is None:
        return "0"
    if t is True:
        return "1 1"
    if t is False:
        return "1 0"
    if isinstance(t, int):
        ds = str(abs(t))
        return f"2 {1 if t < 0 else 0} {len(ds)} " + " ".join(ds)
    if isinstance(t, list):
        return f"4 {len(t)}" + "".join(" " + tok_tree(x) for x in t)
    if "s" in t:
        return "3 " + tok_str(t["s"])
    if "o" in t or "ns" in t:
        ms = t.get("o", t.get("ns"))
        return f"5 {len(ms)}" + "".join(" " + tok_str(k) + " " + tok_tree(v) for k, v in ms)
    if "enum" in t:
        return tok_tree(t["enum"])
    if "pos" in t:
        return tok_tree({"o": [[S("line")["s"], t["pos"][0]], [S("character")["s"], t["pos"][1]]]})
    if "bad" in t:
        raise Unser()
    raise ValueError(f"bad tree {t!r}")


def tok_payload(t):
    try:
        return tok_tree(t)
    except Unser:
        return "9"


def tok_send(s):
    k = s["t"]
    if k == "resp":
        return f"0 {tok_tree(s['id'])} {tok_payload(s['result'])}"
    if k == "err":
        return f"1 {tok_tree(s['id'])} {tok_tree(s['code'])[2:]} {tok_str(s['message'])} {tok_tree(s['data'])}"
    if k == "notif":
        return f"2 {tok_str(s['method'])} {tok_payload(s['params'])}"
    if k == "req":
        return f"3 {tok_tree(s['id'])} {tok_str(s['method'])} {tok_payload(s['params'])}"
    return f"4 {tok_payload(s['data'])}"


def tok_sends(ss):
    return f"{len(ss)}" + "".join(" " + tok_send(s) for s in ss)


class _Plain:
    """an object json can only serialise through default= -> data.__dict__"""


def to_py(t):
    """payload tree -> the Python object handed to pygls"""
    if t is None or isinstance(t, (bool, int)):
        return t
    if isinstance(t, list):
        return [to_py(x) for x in t]
    if "s" in t:
        return "".join(map(chr, t["s"]))
    if "o" in t:
        return {"".join(map(chr, k)): to_py(v) for k, v in t["o"]}
    if "ns" in t:
        o = _Plain()
        for k, v in t["ns"]:
            o.__dict__["".join(map(chr, k))] = to_py(v)
        return o
    if "enum" in t:
        return enum.Enum("E", {"A": to_py(t["enum"])}).A
    if "pos" in t:
        from lsprotocol import types
        return types.Position(line=t["pos"][0], character=t["pos"][1])
    if "pt" in t:
        return _conv_classes()[0](t["pt"][0], t["pt"][1])
    if "color" in t:
        return _conv_classes()[1](t["color"])
    if "bad" in t:
        if t["bad"] == 1:
            x = []
            x.append(x)
            return x
        if t["bad"] == 2:
            return {1, 2}
        return object()
    raise ValueError(f"bad tree {t!r}")


def strings_of(t, acc):
    if isinstance(t, list):
        for x in t:
            strings_of(x, acc)
    elif isinstance(t, dict):
        if "s" in t:
            acc.append(t["s"])
        for key in ("o", "ns"):
            for k, v in t.get(key, []):
                acc.append(k)
                strings_of(v, acc)
        if "enum" in t:
            strings_of(t["enum"], acc)
    return acc


def send_strings(s):
    acc = []
    for f in ("id", "result", "data", "params"):
        if f in s:
            strings_of(s[f], acc)
    for f in ("message", "method"):
        if f in s:
            acc.append(s[f])
    return acc


def all_sends(c):
    if c["k"] == "multi":
        return [s_ for _, s_ in c["ops"]]
    if c["k"] == "session":
        return [o["send"] for o in c["ops"] if o["op"] == "send"]
    if c["k"] == "loop":
        return [s for m in c["msgs"] for s in m["sends"]]
    return c["sends"] if c["k"] == "case" else [s for ss in c["senders"] for s in ss]


# ------------------------------------------------------------------ independent decoder / reader
def py_decode(stream):
    """Strict LSP base-protocol decoder: list of bodies, or None unless the stream is a
    concatenation of complete frames."""
    out, i, n = [], 0, len(stream)
    while i < n:
        cl = None
        while True:
            j = stream.find(b"\r\n", i)
            if j < 0:
                return None
            line = stream[i:j]
            i = j + 2
            if not line:
                break
            k = line.find(b":")
            if k < 0:
                return None
            name, value = line[:k], line[k + 1:]
            if name.lower() == b"content-length":
                value = value.lstrip(b" \t")
                if cl is not None or not value or any(not (48 <= b <= 57) for b in value):
                    return None
                cl = int(value)
            elif not name or any(not (33 <= b <= 126) for b in name):
                return None
        if cl is None or i + cl > n:
            return None
        out.append(stream[i:i + cl])
        i += cl
    return out


class _Bad(Exception):
    pass


class Obj:
    """a JSON object as the ordered list of its members"""
    def __init__(self, members):
        self.members = members


def py_loads(body):
    """Strict JSON reader (integers only), independent of the json module.  bytes -> tree or _Bad."""
    try:
        s = body.decode("utf-8", "strict")
    except UnicodeDecodeError:
        raise _Bad("utf-8")
    n = len(s)

    def ws(i):
        while i < n and s[i] in " \t\n\r":
            i += 1
        return i

    def hex4(i):
        if i + 4 > n:
            raise _Bad("short \\u")
        v = 0
        for ch in s[i:i + 4]:
            d = "0123456789abcdef".find(ch.lower()) if len(ch) == 1 else -1
            if d < 0 or ord(ch) > 127:
                raise _Bad("hex")
            v = v * 16 + d
        return v

    def string(i):      # s[i-1] == '"'
        out = []
        while True:
            if i >= n:
                raise _Bad("unterminated string")
            ch = s[i]
            if ch == '"':
                return "".join(out), i + 1
            if ch == "\\":
                if i + 1 >= n:
                    raise _Bad("escape")
                e = s[i + 1]
                simple = {'"': '"', "\\": "\\", "/": "/", "b": "\b", "f": "\f", "n": "\n", "r": "\r", "t": "\t"}
                if e in simple:
                    out.append(simple[e])
                    i += 2
                elif e == "u":
                    u = hex4(i + 2)
                    i += 6
                    if 0xD800 <= u <= 0xDBFF and s[i:i + 2] == "\\u" and i + 6 <= n:
                        v = hex4(i + 2)
                        if 0xDC00 <= v <= 0xDFFF:
                            u = 0x10000 + ((u - 0xD800) << 10) + (v - 0xDC00)
                            i += 6
                    out.append(chr(u))
                else:
                    raise _Bad("escape")
            elif ord(ch) < 32:
                raise _Bad("control character")
            else:
                out.append(ch)
                i += 1

    def value(i, depth):
        if depth > 2000:
            raise _Bad("depth")
        i = ws(i)
        if i >= n:
            raise _Bad("eof")
        ch = s[i]
        if ch == '"':
            return string(i + 1)
        if ch == "[":
            i = ws(i + 1)
            if i < n and s[i] == "]":
                return [], i + 1
            out = []
            while True:
                v, i = value(i, depth + 1)
                out.append(v)
                i = ws(i)
                if i < n and s[i] == "]":
                    return out, i + 1
                if i < n and s[i] == ",":
                    i += 1
                    continue
                raise _Bad("array")
        if ch == "{":
            i = ws(i + 1)
            if i < n and s[i] == "}":
                return Obj([]), i + 1
            out = []
            while True:
                i = ws(i)
                if i >= n or s[i] != '"':
                    raise _Bad("key")
                k, i = string(i + 1)
                i = ws(i)
                if i >= n or s[i] != ":":
                    raise _Bad("colon")
                v, i = value(i + 1, depth + 1)
                out.append((k, v))
                i = ws(i)
                if i < n and s[i] == "}":
                    return Obj(out), i + 1
                if i < n and s[i] == ",":
                    i += 1
                    continue
                raise _Bad("object")
        for lit, v in (("null", None), ("true", True), ("false", False)):
            if s.startswith(lit, i):
                return v, i + len(lit)
        j = i
        if j < n and s[j] == "-":
            j += 1
        k = j
        while k < n and "0" <= s[k] <= "9":
            k += 1
        if k == j or (s[j] == "0" and k - j > 1) or (k < n and s[k] in ".eE"):
            raise _Bad("number")
        if s[i] == "-" and s[j:k] == "0":
            raise _Bad("-0")
        return int(s[i:k]), k

    v, i = value(0, 0)
    if ws(i) != n:
        raise _Bad("trailing data")
    return v


def unordered(t):
    """canonical form in which object member order is immaterial (duplicate keys are an error)"""
    if isinstance(t, Obj):
        keys = [k for k, _ in t.members]
        if len(set(keys)) != len(keys):
            raise _Bad("duplicate key")
        return ("obj", tuple(sorted(((tuple(map(ord, k)), unordered(v)) for k, v in t.members))))
    if isinstance(t, list):
        return ("arr", tuple(unordered(x) for x in t))
    if isinstance(t, bool):
        return ("bool", t)
    if isinstance(t, int):
        return ("int", t)
    if isinstance(t, str):
        return ("str", tuple(map(ord, t)))
    return ("null",)


def ordered_py(t):
    """the reader's tree as plain Python data (dict keeps member order) for json.dumps"""
    if isinstance(t, Obj):
        return {k: ordered_py(v) for k, v in t.members}
    if isinstance(t, list):
        return [ordered_py(x) for x in t]
    return t


def pairs_dumps(t):
    """json.dumps of the reader's tree, keeping duplicate members (a dict would drop them)"""
    if isinstance(t, Obj):
        return "{" + ", ".join(json.dumps(k) + ": " + pairs_dumps(v) for k, v in t.members) + "}"
    if isinstance(t, list):
        return "[" + ", ".join(pairs_dumps(x) for x in t) + "]"
    return json.dumps(t)


def is_merge(seq, lists):
    """seq is an interleaving of the lists that keeps each list's order"""
    from functools import lru_cache
    lists = [tuple(l) for l in lists]
    if len(seq) != sum(map(len, lists)):
        return False

    @lru_cache(maxsize=None)
    def go(pos):
        k = sum(pos)
        if k == len(seq):
            return True
        for i, l in enumerate(lists):
            if pos[i] < len(l) and l[pos[i]] == seq[k]:
                if go(pos[:i] + (pos[i] + 1,) + pos[i + 1:]):
                    return True
        return False
    return go(tuple(0 for _ in lists))


# ------------------------------------------------------------------ writers used to observe pygls
class PlainWriter:
    def __init__(self, log):
        self.log = log
    def write(self, data):
        self.log.append(["w", bytes(data).hex()])
    def close(self):
        pass


class RawStream:
    """stands for sys.stdout.buffer under the real StdoutWriter"""
    def __init__(self, log):
        self.log = log
    def write(self, data):
        self.log.append(["w", bytes(data).hex()])
        return len(data)
    def flush(self):
        self.log.append(["f"])
    def close(self):
        pass


class FakeWs:
    """stands for a websocket connection under the real WebSocketWriter"""
    def __init__(self, log):
        self.log = log
    async def send(self, data):
        self.log.append(["w", bytes(data).hex()])
    async def close(self):
        pass


class Gate:
    """Lets the harness decide which sender thread performs the next transport operation."""
    def __init__(self, n):
        self.cv = threading.Condition()
        self.state = ["running"] * n
        self.grant = None
        self.log = []
        self.local = threading.local()
        self.abort = False

    def op(self, rec):
        i = self.local.i
        with self.cv:
            self.state[i] = "waiting"
            self.cv.notify_all()
            if not self.cv.wait_for(lambda: self.grant == i or self.abort, TMO) or self.abort:
                raise TimeoutError("gate")
            self.grant = None
            self.log.append([i] + rec)
            self.state[i] = "running"
            self.cv.notify_all()

    def step(self, i):
        """let sender i perform one operation; False when it has none left"""
        with self.cv:
            if not self.cv.wait_for(lambda: self.state[i] != "running", TMO):
                raise TimeoutError("sender never reached the gate")
            if self.state[i] == "done":
                return False
            self.grant = i
            self.cv.notify_all()
            if not self.cv.wait_for(lambda: self.grant is None, TMO):
                raise TimeoutError("operation not performed")
            return True


class GatedWriter:
    def __init__(self, gate):
        self.gate = gate
    def write(self, data):
        self.gate.op(["w", bytes(data).hex()])
    def close(self):
        pass


class GatedRaw:
    def __init__(self, gate):
        self.gate = gate
    def write(self, data):
        self.gate.op(["w", bytes(data).hex()])
        return len(data)
    def flush(self):
        self.gate.op(["f"])
    def close(self):
        pass


class LoopRaw:
    """stands for sys.stdout.buffer under the real StdoutWriter while the REAL read loop runs: logs
    every write/flush with the thread that made it and the handler-context send it belongs to, and
    knows which bytes have been flushed (the flushed prefix of everything written)."""
    def __init__(self):
        self.lock = threading.Lock()
        self.log = []
        self.total = 0
        self.flushed = 0
        self.last_end = {}
        self.tag = threading.local()
        self.closed = False
    def write(self, data):
        with self.lock:
            self.total += len(data)
            tid = threading.get_ident()
            self.last_end[tid] = self.total
            self.log.append([tid, getattr(self.tag, "v", None), "w", bytes(data).hex()])
        return len(data)
    def flush(self):
        with self.lock:
            self.flushed = self.total
            self.log.append([threading.get_ident(), getattr(self.tag, "v", None), "f"])
    def pending(self, tid=None):
        """bytes written by that thread (default: anyone) that are not flushed yet"""
        with self.lock:
            end = self.total if tid is None else self.last_end.get(tid, 0)
            return max(0, end - self.flushed)
    def close(self):
        self.closed = True


class LoopStdin:
    """stands for sys.stdin.buffer: serves the scripted frames, then holds EOF back until the
    scripted handlers are done.  Looking up `readline` is what the read loop does when it goes back
    to reading: when that happens on the loop thread, the loop thread's unflushed bytes are sampled."""
    def __init__(self, data, raw, loop_tid, finished):
        self.data, self.pos, self.raw, self.loop_tid, self.finished = data, 0, raw, loop_tid, finished
        self.samples = []
    @property
    def readline(self):
        if threading.get_ident() == self.loop_tid:
            self.samples.append(self.raw.pending(self.loop_tid))
        return self._readline
    def _readline(self):
        if self.pos >= len(self.data):
            end = time.time() + TMO
            while not self.finished() and time.time() < end:
                time.sleep(0.002)
            return b""
        j = self.data.find(b"\n", self.pos)
        j = len(self.data) if j < 0 else j + 1
        out = self.data[self.pos:j]
        self.pos = j
        return out
    def read(self, n):
        out = self.data[self.pos:self.pos + n]
        self.pos += len(out)
        return out
    def close(self):
        pass


def _conv_classes():
    """a small attrs class and an enum whose wire form depends on the endpoint's converter"""
    global _CONV
    try:
        return _CONV
    except NameError:
        pass
    import attrs

    @attrs.define
    class Pt:
        x: int
        y: int

    class Color(enum.Enum):
        RED = 1
        GREEN = 2
        BLUE = 3

    def custom_converter():
        from pygls.protocol import default_converter
        cv = default_converter()
        cv.register_unstructure_hook(Pt, lambda p_: [p_.x, p_.y])
        cv.register_unstructure_hook(Color, lambda c_: c_.name)
        return cv
    _CONV = (Pt, Color, custom_converter)
    return _CONV


COLORS = ["RED", "GREEN", "BLUE"]


def plain_tree(t, conv):
    """the tree THIS endpoint's serialiser yields for a payload: {"pt": [x, y]} is {"x":..,"y":..} under the
    default converter and [x, y] under the custom one; {"color": k} is its value / its name"""
    if isinstance(t, list):
        return [plain_tree(x, conv) for x in t]
    if isinstance(t, dict):
        if "pt" in t:
            x, y = t["pt"]
            return [x, y] if conv == "custom" else {"o": [[S("x")["s"], x], [S("y")["s"], y]]}
        if "color" in t:
            return S(COLORS[t["color"] - 1]) if conv == "custom" else t["color"]
        if "o" in t:
            return {"o": [[k, plain_tree(v, conv)] for k, v in t["o"]]}
    return t


def plain_send(s_, conv):
    d = dict(s_)
    for f in ("result", "params", "data"):
        if f in d:
            d[f] = plain_tree(d[f], conv)
    return d


_HELPER = None


def _multi_helper_call(c):
    """one case -> the forking helper -> observation"""
    global _HELPER
    import atexit, select, subprocess, sys
    if _HELPER is None or _HELPER.poll() is not None:
        env = dict(os.environ, PYTHONPATH=core.REPO + os.pathsep + os.path.dirname(os.path.abspath(__file__)),
                   PYTHONHASHSEED="0")
        _HELPER = subprocess.Popen([core.PY, "-u", os.path.abspath(__file__), "--multi-helper"], env=env,
                                   stdin=subprocess.PIPE, stdout=subprocess.PIPE, text=True, bufsize=1)
        atexit.register(lambda h=_HELPER: h.poll() is None and h.kill())
    _HELPER.stdin.write(json.dumps(c) + "\n")
    _HELPER.stdin.flush()
    r, _, _ = select.select([_HELPER.stdout], [], [], 3 * TMO)
    if not r:
        _HELPER.kill()
        raise TimeoutError("multi helper")
    line = _HELPER.stdout.readline()
    if not line:
        raise RuntimeError("multi helper died")
    res = json.loads(line)
    if isinstance(res, dict) and "raise" in res:
        return ["raise", res["raise"]]
    return res


def _multi_helper_main():
    """stdin: one case per line; each is run in a forked child; stdout: one observation per line"""
    import sys
    logging.disable(logging.CRITICAL)
    import pygls.server, pygls.lsp.server, pygls.protocol   # noqa: imported, nothing is ever sent here
    for line in sys.stdin:
        c = json.loads(line)
        rd, wr = os.pipe()
        pid = os.fork()
        if pid == 0:
            os.close(rd)
            try:
                out = json.dumps(C03.run_multi_here(c))
            except BaseException as ex:     # noqa
                out = json.dumps({"raise": type(ex).__name__})
            with os.fdopen(wr, "w") as f:
                f.write(out)
            os._exit(0)
        os.close(wr)
        with os.fdopen(rd) as f:
            data = f.read()
        os.waitpid(pid, 0)
        sys.stdout.write((data or json.dumps({"raise": "ChildDied"})) + "\n")
        sys.stdout.flush()


def make_server(flavour, conv="default"):
    if conv == "custom":
        factory = _conv_classes()[2]
        if flavour == "lsp":
            from pygls.lsp.server import LanguageServer
            return LanguageServer("c03", "v1", converter_factory=factory)
        from pygls.server import JsonRPCServer
        from pygls.protocol import JsonRPCProtocol
        return JsonRPCServer(JsonRPCProtocol, factory)
    return make_server_default(flavour)


def make_server_default(flavour):
    if flavour == "lsp":
        from pygls.lsp.server import LanguageServer
        return LanguageServer("c03", "v1")
    from pygls.server import JsonRPCServer
    from pygls.protocol import JsonRPCProtocol, default_converter
    return JsonRPCServer(JsonRPCProtocol, default_converter)


def make_protocol(flavour):
    return make_server(flavour).protocol


def perform(p, s):
    from lsprotocol import types
    k = s["t"]
    if k == "resp":
        priv.send_response(p)(to_py(s["id"]), to_py(s["result"]))
    elif k == "err":
        priv.send_response(p)(to_py(s["id"]), None,
                         types.ResponseError(code=s["code"], message="".join(map(chr, s["message"])),
                                             data=to_py(s["data"])))
    elif k == "notif":
        p.notify("".join(map(chr, s["method"])), to_py(s["params"]))
    elif k == "req":
        cb = (lambda result: None) if s.get("cb") else None
        p.send_request("".join(map(chr, s["method"])), to_py(s["params"]), callback=cb, msg_id=to_py(s["id"]))
    else:
        priv.send_data(p)(to_py(s["data"]))


# ------------------------------------------------------------------ the property
class C03(core.Property):
    id = "C03"
    modules = ["Proofs.JsonProofs", "Proofs.WireProofs", "Props.C03"]
    obligations = ["dumps_ascii", "header_len_is_byte_len", "parse_dec_digits", "header_decodes",
                   "spec_decode_frames", "send_data_tree", "do_send_frames", "sender_stream_decodes",
                   "escape_roundtrip", "scalar_pairfree", "read_value_dumps", "loads_dumps",
                   "interleave_flat_map", "interleave_map_inv", "merge_of_atomic_writes", "run_schedule_interleave",
                   "flush_last", "send_ops_context_free", "flushed_when_send_returns",
                   "do_send_render", "p_run_unseg", "session_per_writer", "session_writer_frames", "session_writer_bare",
                   "C03_sessions_covered", "C03_session_example", "sent_trees_expected", "sender_reads_back", "C03", "C03_reference_agrees",
                   "C03_schedules_covered", "C03_refuted_nonatomic_write", "C03_pairfree_necessary", "C03_scalar_strings_ok", "C03_nonvacuous"]
    coq_targets = ["Props/C03.vo", "Extract/ExtractC03.vo"]
    rule = ("a case is a configuration (protocol flavour, writer kind, include_headers) and a list of sending calls "
            "(response result / error, notify, send_request, raw data) or several senders plus a schedule "
            "of their transport operations; non-trivial = some string of the case has a character >= 0x80 or one that "
            "json escapes, or there are >= 2 concurrent senders")
    trusted_base = ["Coq 8.16.1 kernel incl. vm_compute (Examples, witnesses)",
                    "extraction with ExtrOcamlBasic only + ocaml/c03_driver.ml + conv_io/conv_n/conv_z/conv_nat",
                    "harness/c03.py (generators, recording/gating writers, independent decoder and JSON reader)",
                    "modelled not verified: json.dumps (default separators, ensure_ascii), str.encode, f-string of int, "
                    "cattrs unstructure of the four generic message classes (layout reproduced, tied on every run)",
                    "assumed: one transport write call is atomic (BufferedWriter holds its lock for the whole call)",
                    priv.trusted(["protocol.send_response", "protocol.send_data", "server.error_handler", "server.start_io_sync"])]
    private = ["protocol.send_response", "protocol.send_data", "server.error_handler", "server.start_io_sync"]
    assumptions = ["payloads are JSON trees with str keys and int/str/bool/None leaves (floats excluded)",
                   "a Python str is a list of code points 0..0x10FFFF; strings with a high surrogate immediately "
                   "followed by a low surrogate are outside (JSON cannot carry them)",
                   "ids are int or str"]

    # ---------------- generation ----------------
    CLASSES = {
        "ascii": [0x20, 0x41, 0x61, 0x7A, 0x7E, 0x30, 0x2F, 0x3A, 0x2C, 0x5B, 0x7B],
        "quote": [0x22, 0x5C, 0x22, 0x5C, 0x2F],
        "ctrl": [0x00, 0x01, 0x08, 0x09, 0x0A, 0x0C, 0x0D, 0x1F, 0x0B, 0x1B],
        "del": [0x7F, 0x7F, 0x80, 0x9F],
        "lat": [0x80, 0xA0, 0xE9, 0xFF, 0x7FF, 0x3B1],
        "bmp": [0x800, 0x20AC, 0x4E2D, 0xD7FF, 0xE000, 0xFFFD, 0xFFFE, 0xFFFF, 0x2028, 0x2029],
        "astral": [0x10000, 0x1F60B, 0x1F600, 0x10FFFF, 0xFFFFF, 0x100000],
        "sur": [0xD800, 0xDBFF, 0xDC00, 0xDFFF, 0xD83D],
    }

    def rstring(self, rng, maxlen=12, pairs=False):
        names = list(self.CLASSES)
        k = rng.choice([1, 1, 2, 3, len(names)])
        cls = [rng.choice(names) for _ in range(k)]
        n = rng.choice([0, 1, 2, 3, rng.randint(0, maxlen)])
        out = []
        for _ in range(n):
            c = rng.choice(cls)
            ch = rng.choice(self.CLASSES[c]) if rng.random() < 0.7 else self.rcp(rng, c)
            if not pairs and out and 0xD800 <= out[-1] <= 0xDBFF and 0xDC00 <= ch <= 0xDFFF:
                out.append(0x61)
            out.append(ch)
        return out

    @staticmethod
    def rcp(rng, c):
        lo, hi = {"ascii": (0x20, 0x7E), "quote": (0x22, 0x22), "ctrl": (0, 0x1F), "del": (0x7F, 0x9F),
                  "lat": (0x80, 0x7FF), "bmp": (0x800, 0xFFFF), "astral": (0x10000, 0x10FFFF),
                  "sur": (0xD800, 0xDFFF)}[c]
        while True:
            x = rng.randint(lo, hi)
            if c == "bmp" and 0xD800 <= x <= 0xDFFF:
                continue
            return x

    def rint(self, rng):
        return rng.choice([0, 1, -1, 7, 10, -10, 255, 2 ** 31 - 1, -2 ** 31, 2 ** 53, 2 ** 63, -2 ** 63 - 1,
                           10 ** 30, -10 ** 25, rng.randint(-10 ** 6, 10 ** 6), rng.randint(-10 ** 40, 10 ** 40),
                           99, 100, 999, 1000, 9, 10 ** 18])

    def rtree(self, rng, depth=3, special=True):
        r = rng.random()
        if depth <= 0 or r < 0.45:
            k = rng.randint(0, 9)
            if k <= 3:
                return {"s": self.rstring(rng)}
            if k <= 5:
                return self.rint(rng)
            if k == 6:
                return rng.choice([True, False])
            if k == 7:
                return None
            if k == 8 and special:
                return rng.choice([{"enum": self.rint(rng)}, {"enum": {"s": self.rstring(rng)}},
                                   {"pos": [rng.randint(0, 10 ** 6), rng.randint(0, 99)]}])
            return {"s": self.rstring(rng, 30)}
        if r < 0.7:
            return [self.rtree(rng, depth - 1, special) for _ in range(rng.choice([0, 1, 2, 3, 5]))]
        ms, seen = [], set()
        for _ in range(rng.choice([0, 1, 2, 3, 4])):
            k = self.rstring(rng, 6)
            if tuple(k) in seen:
                continue
            seen.add(tuple(k))
            ms.append([k, self.rtree(rng, depth - 1, special)])
        if special and rng.random() < 0.1 and all(m[0] for m in ms):
            return {"ns": ms}
        return {"o": ms}

    def rid(self, rng, req=False):
        """ids of outgoing requests are kept apart from the ids answered in the same case: pygls keeps
        both in one table (DESIGN section 6 row 21, a C05 matter), the peer is assumed not to reuse them"""
        x = rng.choice([rng.randint(0, 50), self.rint(rng), {"s": self.rstring(rng, 8)},
                        S("6f2a1c3e-0000-4000-8000-000000000000")])
        if isinstance(x, int):
            return (x | 1) if req else (x & ~1)
        return {"s": [0x71 if req else 0x72] + x["s"]}

    def rsend(self, rng, depth=3, raw=True, bad=True):
        k = rng.choice(["resp", "resp", "err", "notif", "req"] + (["raw"] if raw and rng.random() < 0.3 else []))
        pay = lambda: ({"bad": rng.randint(0, 2)} if bad and rng.random() < 0.04
                       else [1, {"o": [[S("k")["s"], {"bad": 0}]]}] if bad and rng.random() < 0.02
                       else self.rtree(rng, depth))
        meth = lambda: rng.choice([S("custom/method")["s"], S("$/x")["s"], self.rstring(rng, 10), []])
        if k == "resp":
            return {"t": "resp", "id": self.rid(rng), "result": pay()}
        if k == "err":
            return {"t": "err", "id": self.rid(rng), "code": rng.choice([-32603, -32700, 0, 1, -1, 2 ** 31 - 1, -2 ** 31, rng.randint(-40000, 40000)]),
                    "message": self.rstring(rng, 20), "data": rng.choice([None, None, self.rtree(rng, 2, False)])}
        if k == "notif":
            return {"t": "notif", "method": meth(), "params": rng.choice([None, pay()])}
        if k == "req":
            return {"t": "req", "id": self.rid(rng, True), "method": meth(), "params": rng.choice([None, pay()]),
                    "cb": rng.random() < 0.3}
        d = rng.choice([None, 0, False, S(""), [], {"o": []}, pay()])
        if isinstance(d, dict) and ("ns" in d or "enum" in d or "pos" in d):
            d = [d]       # bool() of such an object is not that of the tree it serialises to
        return {"t": "raw", "data": d}

    def big_send(self, rng, nbytes, cls):
        """one message whose body is about nbytes long, built from characters of one class"""
        per = {"ascii": 1, "quote": 2, "ctrl": 4, "del": 6, "lat": 6, "bmp": 6, "astral": 12, "sur": 6}[cls]
        n = max(1, nbytes // per)
        if cls == "sur":
            s = [rng.choice([0xDC00, 0xDFFF, 0x61]) if i % 2 else rng.choice([0xD800, 0xDBFF, 0x62]) for i in range(n)]
            for i in range(1, n):
                if 0xD800 <= s[i - 1] <= 0xDBFF and 0xDC00 <= s[i] <= 0xDFFF:
                    s[i] = 0x7A
        else:
            s = [rng.choice(self.CLASSES[cls]) for _ in range(n)]
        shape = rng.choice(["str", "arr", "obj"])
        if shape == "str":
            tree = {"s": s}
        elif shape == "arr":
            tree = [{"s": s[i:i + 50]} for i in range(0, n, 50)]
        else:
            tree = {"o": [[S(f"k{i}")["s"], {"s": s[i:i + 80]}] for i in range(0, n, 80)]}
        return rng.choice([{"t": "resp", "id": 1, "result": tree},
                           {"t": "notif", "method": S("big/n")["s"], "params": tree},
                           {"t": "req", "id": S("qbig"), "method": S("big/r")["s"], "params": tree},
                           {"t": "err", "id": 2, "code": -32000, "message": s[:2000], "data": tree}])

    def boundary_cases(self):
        out = []
        strs = [[], [0x61], [0x22], [0x5C], [0x2F], [0x00], [0x08], [0x09], [0x0A], [0x0C], [0x0D], [0x1F], [0x20], [0x7E],
                [0x7F], [0x80], [0xFF], [0x7FF], [0x800], [0xD7FF], [0xD800], [0xDBFF], [0xDC00], [0xDFFF], [0xE000],
                [0xFFFF], [0x10000], [0x10FFFF], [0x1F60B], [0xDC00, 0xD800], [0xD800, 0x61, 0xDC00],
                [0xD83D, 0x1F60B], [0x1F60B, 0xDE0B], [0xE9, 0x20AC, 0x1F60B, 0x22, 0x5C, 0x0A, 0x7F]]
        for i, s in enumerate(strs):
            fl, w = ("rpc", "lsp")[i % 2], ("plain", "stdout", "await")[i % 3]
            out.append({"k": "case", "fl": fl, "w": w, "h": True, "sends": [
                {"t": "resp", "id": i, "result": {"s": s}},
                {"t": "err", "id": {"s": s}, "code": -32000 - i, "message": s, "data": {"o": [[s, {"s": s}]]}},
                {"t": "notif", "method": s, "params": [{"s": s}, {"s": s + s}]},
                {"t": "req", "id": {"s": s + [0x31]}, "method": [0x6D] + s, "params": {"o": [[s, [None, True, {"s": s}]]]}}]})
        for v in [None, True, False, 0, 1, -1, 9, 10, 99, 100, 2 ** 63, -2 ** 63, 10 ** 30, -10 ** 30, [], {"o": []},
                  [[]], [[], []], {"o": [[[], {"o": []}]]}, [1, [2, [3, [4, [5]]]]], {"enum": 3}, {"enum": S("v")},
                  {"pos": [3, 4]}, {"ns": [[S("x")["s"], 1], [S("y")["s"], S("é")]]}, {"bad": 0}, {"bad": 1},
                  {"bad": 2}, [1, {"bad": 0}]]:
            for fl in ("rpc", "lsp"):
                sends = [{"t": "resp", "id": 5, "result": v}, {"t": "notif", "method": S("m")["s"], "params": v},
                         {"t": "req", "id": 6, "method": S("m")["s"], "params": v}, {"t": "raw", "data": v}]
                if tok_payload(v) != "9":
                    sends.append({"t": "err", "id": 7, "code": 0, "message": [], "data": v})
                if fl == "lsp":
                    # the default LanguageServer error hook answers a failed serialisation with a
                    # window/showMessage of its own (C06's subject): keep those cases on the plain server
                    sends = [s for s in sends if tok_send(s).split()[-1] != "9"]
                out.append({"k": "case", "fl": fl, "w": "stdout", "h": True, "sends": sends})
        base = [{"t": "resp", "id": 1, "result": S("é")}, {"t": "notif", "method": S("n")["s"], "params": None}]
        for w in WR:
            for h in (True, False):
                out.append({"k": "case", "fl": "rpc", "w": w, "h": h, "sends": base})
                out.append({"k": "case", "fl": "lsp", "w": w, "h": h, "sends": base})
        return out

    def rsched(self, rng, nmax=4, bigs=False):
        n = rng.randint(2, nmax)
        senders = []
        for i in range(n):
            ss = []
            for q in range(rng.randint(1, 3)):
                s = self.rsend(rng, 2, raw=False, bad=False)
                # make every message of a sender recognisable
                tag = {"o": [[S("sender")["s"], i], [S("seq")["s"], q], [S("v")["s"], s.get("result", s.get("params", s.get("data")))]]}
                if s["t"] == "resp":
                    s["result"] = tag
                elif s["t"] == "err":
                    s["data"] = tag
                else:
                    s["params"] = tag
                ss.append(s)
            senders.append(ss)
        w = rng.choice(["plain", "stdout", "stdout"])
        total = sum(len(ss) for ss in senders) * (2 if w == "stdout" else 1)
        sched = [rng.randint(0, n - 1) for _ in range(rng.randint(0, total + 2))]
        return {"k": "sched", "fl": rng.choice(["rpc", "lsp"]), "w": w, "h": True, "senders": senders, "sched": sched}

    def hsend(self, rng, i, k):
        """a send a handler makes: a notification or a request, recognisable"""
        tag = {"o": [[S("msg")["s"], i], [S("seq")["s"], k], [S("v")["s"], self.rtree(rng, 1, special=False)]]}
        if rng.random() < 0.7:
            return {"t": "notif", "method": S("h/progress")["s"], "params": tag}
        return {"t": "req", "id": S("q%d-%d" % (i, k)), "method": S("h/ask")["s"], "params": tag}

    def loop_scenarios(self):
        """(a) sync request / notification handler under run_async and run, (b) async handler after an
        await, (c) pool-thread handler sending while the loop thread is held inside another handler,
        (d) the replies themselves"""
        n = lambda i, k: {"t": "notif", "method": S("h/progress")["s"],
                          "params": {"o": [[S("msg")["s"], i], [S("seq")["s"], k], [S("v")["s"], S("é\U0001F60B")]]}}
        r = lambda i, k: {"t": "req", "id": S("q%d-%d" % (i, k)), "method": S("h/ask")["s"],
                          "params": {"o": [[S("msg")["s"], i], [S("seq")["s"], k]]}}
        out = []
        for fl in ("rpc", "lsp"):
            for loop in ("async", "sync", "sync_entry", "wasm"):
                out.append({"k": "loop", "fl": fl, "loop": loop, "msgs": [
                    {"kind": "sync", "sends": [n(0, 0), r(0, 1)], "result": S("s")},
                    {"kind": "nsync", "sends": [n(1, 0)], "result": None},
                    {"kind": "sync", "sends": [], "result": [1, None]}]})
            out.append({"k": "loop", "fl": fl, "loop": "async", "msgs": [
                {"kind": "async", "sends": [n(0, 0), n(0, 1)], "result": S("a")},
                {"kind": "sync", "sends": [n(1, 0)], "result": 1}]})
            out.append({"k": "loop", "fl": fl, "loop": "async", "msgs": [
                {"kind": "thread", "sends": [n(0, 0)], "result": S("t")},
                {"kind": "hold", "sends": [n(1, 0)], "result": S("s")}]})
            out.append({"k": "loop", "fl": fl, "loop": "async", "msgs": [
                {"kind": "thread", "sends": [r(0, 0), n(0, 1)], "result": S("t")},
                {"kind": "sync", "sends": [], "result": None}]})
        return out

    def rloop(self, rng):
        loop = rng.choice(["async", "async", "sync", "sync_entry", "wasm"])
        kinds = ["sync", "nsync", "sync"] + (["async", "thread"] if loop == "async" else [])
        msgs = []
        for i in range(rng.randint(1, 4)):
            kind = rng.choice(kinds)
            msgs.append({"kind": kind, "sends": [self.hsend(rng, i, k) for k in range(rng.choice([0, 1, 1, 2, 3]))],
                         "result": None if kind == "nsync" else self.rtree(rng, 2, special=False)})
        if loop == "async" and any(m["kind"] == "thread" for m in msgs) and rng.random() < 0.6:
            i = len(msgs)
            msgs.append({"kind": "hold", "sends": [self.hsend(rng, i, 0)], "result": S("held")})
        return {"k": "loop", "fl": rng.choice(["rpc", "lsp"]), "loop": loop, "msgs": msgs}

    def multi_scenarios(self):
        """two (three) endpoints in one process whose converters render the same payload classes
        differently; who sends first varies"""
        pay = lambda q: {"o": [[S("p")["s"], {"pt": [q, q + 1]}], [S("c")["s"], {"color": 1 + q % 3}], [S("l")["s"], [{"pt": [0, q]}]]]}
        n = lambda q: {"t": "notif", "method": S("m/n")["s"], "params": pay(q)}
        r = lambda q: {"t": "resp", "id": q, "result": {"pt": [q, 7]}}
        rq = lambda q: {"t": "req", "id": S("q%d" % q), "method": S("m/r")["s"], "params": {"color": 2}}
        out = []
        for fa, fb in (("rpc", "rpc"), ("lsp", "lsp"), ("rpc", "lsp")):
            for ca, cb in (("default", "custom"), ("custom", "default")):
                eps = [{"fl": fa, "conv": ca}, {"fl": fb, "conv": cb}]
                out.append({"k": "multi", "eps": eps, "ops": [[0, n(1)], [1, n(2)], [1, r(4)], [0, r(6)], [1, rq(1)], [0, rq(3)]]})
                out.append({"k": "multi", "eps": eps, "ops": [[1, r(2)], [0, n(3)]]})
        out.append({"k": "multi", "eps": [{"fl": "rpc", "conv": "default"}, {"fl": "rpc", "conv": "custom"}, {"fl": "lsp", "conv": "default"}],
                    "ops": [[0, n(1)], [1, n(1)], [2, n(1)], [1, r(2)], [2, r(2)], [0, r(2)]]})
        return out

    def rmulti(self, rng):
        eps = [{"fl": rng.choice(["rpc", "lsp"]), "conv": cv} for cv in rng.sample(["default", "custom", rng.choice(["default", "custom"])], rng.choice([2, 3]))]
        def tree(d):
            k = rng.randint(0, 5)
            if k == 0:
                return {"pt": [rng.randint(-5, 99), rng.randint(0, 10 ** 6)]}
            if k == 1:
                return {"color": rng.randint(1, 3)}
            if k == 2 and d > 0:
                return [tree(d - 1) for _ in range(rng.randint(0, 3))]
            if k == 3 and d > 0:
                return {"o": [[S("k%d" % j)["s"], tree(d - 1)] for j in range(rng.randint(0, 3))]}
            return rng.choice([None, 1, S("é")])
        ops = []
        for q in range(rng.randint(2, 6)):
            i = rng.randrange(len(eps))
            kind = rng.choice(["notif", "resp", "req"])
            if kind == "notif":
                ops.append([i, {"t": "notif", "method": S("m/n")["s"], "params": tree(2)}])
            elif kind == "resp":
                ops.append([i, {"t": "resp", "id": 2 * q, "result": tree(2)}])
            else:
                ops.append([i, {"t": "req", "id": S("q%d" % q), "method": S("m/r")["s"], "params": tree(2)}])
        return {"k": "multi", "eps": eps, "ops": ops}

    def session_scenarios(self):
        n = lambda m, v: {"op": "send", "send": {"t": "notif", "method": S(m)["s"], "params": {"o": [[S("v")["s"], v]]}}}
        r = lambda i, v: {"op": "send", "send": {"t": "resp", "id": i, "result": v}}
        st = lambda w, h, dflt=False: {"op": "set", "w": w, "h": h, "dflt": dflt}
        out = []
        for fl in ("rpc", "lsp"):
            for w in ("plain", "stdout"):
                # a log message during start-up, then the transport, then normal traffic
                out.append({"k": "session", "fl": fl, "ops": [n("window/logMessage", S("starting é")), st(w, True, True),
                                                               r(1, S("ok")), n("x/y", 2)]})
                # the writer replaced mid-session, and the framing mode changed with it
                out.append({"k": "session", "fl": fl, "ops": [st(w, True), r(1, None), st("plain", False), n("a/b", S("\U0001F60B")),
                                                               r(2, [1]), st(w, True, True), n("c/d", None), r(4, {"o": []})]})
                out.append({"k": "session", "fl": fl, "ops": [n("early/1", 1), r(9, 9), st(w, False), n("bare", 3), st("stdout", True), r(3, 3)]})
            out.append({"k": "session", "fl": fl, "ops": [n("never/sent", 0)]})
            out.append({"k": "session", "fl": fl, "ops": [st("plain", True), st("stdout", True, True), n("second", 1)]})
        return out

    def rsession(self, rng):
        ops = [{"op": "send", "send": self.rsend(rng, 2, raw=False, bad=False)} for _ in range(rng.choice([0, 1, 1, 2, 3]))]
        for _ in range(rng.randint(1, 3)):
            h = rng.random() < 0.7
            ops.append({"op": "set", "w": rng.choice(["plain", "stdout"]), "h": h, "dflt": h and rng.random() < 0.5})
            ops.extend({"op": "send", "send": self.rsend(rng, 2, raw=False, bad=False)} for _ in range(rng.choice([0, 1, 2, 3])))
        return {"k": "session", "fl": rng.choice(["rpc", "lsp"]), "ops": ops}

    def big_scheds(self):
        """two senders, one frame of more than a pipe buffer / 64 KiB each, their transport operations
        alternating: a writer that hands a large frame over in several calls tears it here"""
        mk = lambda i: {"t": "notif", "method": S("big/%d" % i)["s"],
                        "params": {"o": [[S("sender")["s"], i], [S("seq")["s"], 0], [S("pad")["s"], {"s": [0x78, 0xE9][i:i + 1] * 70000}]]}}
        return [{"k": "sched", "fl": "rpc", "w": w, "h": True, "senders": [[mk(0)], [mk(1)]], "sched": sch}
                for w, sch in (("stdout", [0, 1, 0, 1, 0, 1, 0, 1]), ("plain", [0, 1]))]

    def sched_scope(self):
        """two senders with one and two messages, every schedule of their operations (both writers)"""
        import itertools
        mk = lambda i, q: {"t": "notif", "method": S("s/%d" % i)["s"],
                           "params": {"o": [[S("sender")["s"], i], [S("seq")["s"], q], [S("v")["s"], S("é\U0001F60B")]]}}
        senders = [[mk(0, 0), mk(0, 1)], [mk(1, 0)]]
        out = []
        for w, nops in (("plain", 3), ("stdout", 6)):
            for L in range(0, nops + 1):
                for sch in itertools.product((0, 1), repeat=L):
                    out.append({"k": "sched", "fl": "rpc", "w": w, "h": True, "senders": senders, "sched": list(sch)})
        return out

    def generate(self, chk):
        cases = []
        cdir = os.path.join(core.ROOT, "corpus", "C03")
        if os.path.isdir(cdir):
            for f in sorted(os.listdir(cdir)):
                if f.endswith(".json"):
                    cases.extend(json.load(open(os.path.join(cdir, f))))
        rng = chk.rng
        cases.extend(self.boundary_cases())
        for _ in range(chk.n(500, 12000)):
            w = rng.choice(["plain", "plain", "stdout", "stdout", "await", "none"])
            h = rng.random() < 0.93
            fl = rng.choice(["rpc", "lsp"])
            sends = [self.rsend(rng, bad=(fl == "rpc")) for _ in range(rng.choice([1, 1, 2, 3, 5]))]
            cases.append({"k": "case", "fl": fl, "w": w, "h": h, "sends": sends})
        # strings in which a high surrogate is followed by a low one: outside the statement, impl = M only
        for _ in range(chk.n(20, 300)):
            s = self.rstring(rng, 6, pairs=True) + [rng.choice([0xD800, 0xDBFF, 0xD83D]), rng.choice([0xDC00, 0xDFFF, 0xDE0B])] + self.rstring(rng, 4, pairs=True)
            cases.append({"k": "case", "fl": "rpc", "w": "plain", "h": True,
                          "sends": [{"t": "resp", "id": 1, "result": {"s": s}}]})
        # sizes: up to several pipe buffers
        sizes = [5000, 70000] if chk.quick else [5000, 70000, 140000, 300 * 1024, 300 * 1024, 300 * 1024]
        names = list(self.CLASSES)
        for i, sz in enumerate(sizes):
            for cls in (names if not chk.quick else [names[(i + chk.seed) % len(names)], "astral"]):
                cases.append({"k": "case", "fl": rng.choice(["rpc", "lsp"]), "w": rng.choice(["plain", "stdout"]), "h": True,
                              "sends": [self.big_send(rng, sz, cls)] + ([self.rsend(rng, 1, bad=False)] if i % 2 else [])})
        # concurrent senders under a scripted schedule of their transport operations
        scope = self.sched_scope()
        cases.extend(scope if not chk.quick else rng.sample(scope, 24))
        cases.extend(self.big_scheds())
        for _ in range(chk.n(40, 1500)):
            cases.append(self.rsched(rng))
        # several endpoints with different converters in one process
        cases.extend(self.multi_scenarios())
        for _ in range(chk.n(24, 800)):
            cases.append(self.rmulti(rng))
        # the transport installed late / replaced
        cases.extend(self.session_scenarios())
        for _ in range(chk.n(80, 1500)):
            cases.append(self.rsession(rng))
        # sends made inside handlers under the real read loops
        cases.extend(self.loop_scenarios())
        for _ in range(chk.n(40, 600)):
            cases.append(self.rloop(rng))
        # keep a few small cases last (evidence samples are taken from both ends)
        cases.extend(self.boundary_cases()[:2])
        return cases

    # ---------------- implementation ----------------
    def run_impl(self, chk, cases):
        logging.disable(logging.CRITICAL)
        out = []
        for c in cases:
            try:
                out.append(self.run_case(c) if c["k"] == "case" else self.run_sched(c) if c["k"] == "sched"
                           else self.run_loop(c) if c["k"] == "loop" else self.run_session(c) if c["k"] == "session"
                           else self.run_multi(c) if c["k"] == "multi"
                           else self.run_other(chk, c))
            except Exception as ex:
                out.append(["raise", type(ex).__name__])
        return out

    def run_other(self, chk, c):
        """replay of a record produced by extra_checks"""
        k = c["k"]
        if k == "pipe-stress":
            v = self.pipe_stress(chk, {})
            return v[0]["impl"] if v else "ok"
        if k in ("client-start-io", "start-tcp-entry"):
            v = [r for r in self.nonblocking_entries(chk, {}) if r["case"]["k"] == k]
            return v[0]["impl"] if v else "ok"
        if k == "tcp-thread-stress":
            v = self.tcp_stress(chk, {})
            return v[0]["impl"] if v else "ok"
        if k == "escape":
            return json.dumps(chr(c["cp"]))[1:-1].encode("ascii").hex()
        if k == "oracle-decode":
            r = py_decode(bytes.fromhex(c["stream"]))
            return None if r is None else [b.hex() for b in r]
        if k == "oracle-loads":
            try:
                return pairs_dumps(py_loads(bytes.fromhex(c["body"]))).encode("ascii").hex()
            except _Bad:
                return None
        if k == "oracle-roundtrip":
            x = "".join(map(chr, c["s"]))
            return json.loads(json.dumps(x)) == x
        raise ValueError("unknown case kind " + str(k))

    def run_case(self, c):
        from pygls.io_ import StdoutWriter, WebSocketWriter
        p = make_protocol(c["fl"])
        log = []
        w = c["w"]
        if w == "plain":
            p.set_writer(PlainWriter(log), include_headers=c["h"])
        elif w == "stdout":
            p.set_writer(StdoutWriter(RawStream(log)), include_headers=c["h"])
        elif w == "await":
            p.set_writer(WebSocketWriter(FakeWs(log)), include_headers=c["h"])
        # "none": no transport set, the writer stays None
        per = []
        if w == "await":
            loop = asyncio.new_event_loop()
            try:
                asyncio.set_event_loop(loop)
                async def main():
                    for s in c["sends"]:
                        k = len(log)
                        perform(p, s)
                        pend = [t for t in asyncio.all_tasks() if t is not asyncio.current_task()]
                        if pend:
                            await asyncio.wait(pend, timeout=TMO)
                        per.append(log[k:])
                loop.run_until_complete(asyncio.wait_for(main(), TMO * 3))
            finally:
                asyncio.set_event_loop(None)
                loop.close()
        else:
            for s in c["sends"]:
                k = len(log)
                perform(p, s)
                per.append(log[k:])
        return {"sends": per}

    def run_multi(self, c):
        """Several protocol instances in ONE process, each with its own converter and its own writer;
        sends in the given global order.  Observed: what each instance's writer received.
        Every case runs in a process of its own (forked from a helper that has imported pygls but never
        sent anything), so that what is observed depends on the case alone and a replay is a failing
        input by itself, not an artefact of what earlier cases left behind in class-level state."""
        return _multi_helper_call(c)

    @staticmethod
    def run_multi_here(c):
        eps, logs = [], []
        for e in c["eps"]:
            p = make_server(e["fl"], e["conv"]).protocol
            log = []
            p.set_writer(PlainWriter(log))
            eps.append(p); logs.append(log)
        for i, s_ in c["ops"]:
            perform(eps[i], s_)
        return {"eps": logs}

    def run_session(self, c):
        """One protocol object from its construction on: sends before any transport exists, set_writer
        (headers on / off, default argument), the writer replaced by another one.  Observed: what each
        writer object received, ever."""
        from pygls.io_ import StdoutWriter
        p = make_protocol(c["fl"])
        logs = []
        for o in c["ops"]:
            if o["op"] == "set":
                log = []
                logs.append(log)
                w = PlainWriter(log) if o["w"] == "plain" else StdoutWriter(RawStream(log))
                if o["h"] and o.get("dflt"):
                    p.set_writer(w)
                else:
                    p.set_writer(w, include_headers=o["h"])
            else:
                perform(p, o["send"])
        return {"writers": logs}

    def run_loop(self, c):
        """Sends made where they really happen: inside request / notification handlers running under
        the real read loop (server.start_io -> run_async, or pygls.io_.run), real StdoutWriter.
        Observed per handler-context send: the transport operations made during the call and how many
        of the sender's bytes are NOT flushed at the moment the call returns."""
        from pygls import io_
        server = make_server(c["fl"])
        p = server.protocol
        raw = LoopRaw()
        loop_tid = threading.get_ident()
        msgs = c["msgs"]
        hs, errs = [], []
        state = {"done": 0}
        lock = threading.Lock()
        busy = threading.Event()
        threads_done = threading.Semaphore(0)
        nthread = sum(1 for m in msgs if m["kind"] == "thread")
        has_hold = any(m["kind"] == "hold" for m in msgs)
        nreq = sum(1 for m in msgs if m["kind"] != "nsync")

        def sends_of(i):
            m = msgs[i]
            for k, s_ in enumerate(m["sends"]):
                raw.tag.v = (i, k)
                try:
                    perform(p, s_)
                finally:
                    raw.tag.v = None
                # the sending call has returned: are this thread's bytes on the underlying stream?
                pend = raw.pending(threading.get_ident())
                with lock:
                    hs.append([i, k, pend])

        def finish(i):
            with lock:
                state["done"] += 1
            return to_py(msgs[i]["result"])

        def h_sync(params):
            i = params.i
            sends_of(i)
            return finish(i)

        def h_nsync(params):
            sends_of(params.i)
            finish(params.i)

        def h_hold(params):
            i = params.i
            sends_of(i)
            busy.set()                      # the loop thread stays inside this handler ...
            for _ in range(nthread):        # ... until every pool-thread handler has sent
                threads_done.acquire(timeout=TMO)
            return finish(i)

        async def h_async(params):
            i = params.i
            await asyncio.sleep(0)
            sends_of(i)
            await asyncio.sleep(0)
            return finish(i)

        def h_thread(params):
            i = params.i
            try:
                if has_hold:
                    busy.wait(TMO)
                sends_of(i)
            finally:
                threads_done.release()
            return finish(i)

        server.feature("h/sync")(h_sync)
        server.feature("h/nsync")(h_nsync)
        server.feature("h/hold")(h_hold)
        server.feature("h/async")(h_async)
        server.thread()(h_thread)
        server.feature("h/thread")(h_thread)

        data = b""
        for i, m in enumerate(msgs):
            obj = {"jsonrpc": "2.0", "method": "h/" + m["kind"], "params": {"i": i}}
            if m["kind"] != "nsync":
                obj["id"] = "in-%d" % i
            body = json.dumps(obj).encode()
            data += b"Content-Length: %d\r\n\r\n" % len(body) + body

        def finished():
            with lock:
                if state["done"] < len(msgs):
                    return False
            with raw.lock:
                nrep = sum(1 for e in raw.log if e[1] is None and e[2] == "w")
            return nrep >= nreq
        stdin = LoopStdin(data, raw, loop_tid, finished)
        handler = priv.error_handler(server)       # what the real call sites pass (located outside the observed calls)
        try:
            if c["loop"] == "async":
                server.start_io(stdin, raw)
            elif c["loop"] == "sync_entry":
                # the entry point start_io uses under WASM: pygls itself installs the writer
                priv.start_io_sync(server)(stdin, raw)
            elif c["loop"] == "wasm":
                import pygls.server as srvmod
                saved = srvmod.IS_WASM
                srvmod.IS_WASM = True
                try:
                    server.start_io(stdin, raw)
                finally:
                    srvmod.IS_WASM = saved
            else:
                p.set_writer(io_.StdoutWriter(raw))
                try:
                    io_.run(threading.Event(), stdin, p, None, handler)
                finally:
                    server.shutdown()
        except SystemExit:
            pass
        finally:
            asyncio.set_event_loop(None)
        with raw.lock:
            log = list(raw.log)
        pend = {(i, k): v for i, k, v in hs}
        hsends = []
        for i, m in enumerate(msgs):
            for k in range(len(m["sends"])):
                ops = [e[2:] for e in log if e[1] == (i, k)]
                hsends.append([i, k, ops, pend.get((i, k), -1)])
        groups, cur = [], {}
        for e in log:
            if e[1] is None:
                cur.setdefault(e[0], []).append(e[2:])
                if e[2] == "f":
                    groups.append(cur.pop(e[0]))
        groups += list(cur.values())
        stream = "".join(e[3] for e in log if e[2] == "w")
        return {"hsends": hsends, "replies": sorted(groups), "read_pending": max(stdin.samples or [0]),
                "end_pending": raw.pending(), "stream": stream}

    def run_sched(self, c):
        from pygls.io_ import StdoutWriter
        p = make_protocol(c["fl"])
        n = len(c["senders"])
        g = Gate(n)
        if c["w"] == "stdout":
            p.set_writer(StdoutWriter(GatedRaw(g)), include_headers=c["h"])
        else:
            p.set_writer(GatedWriter(g), include_headers=c["h"])
        errs = []

        def sender(i):
            g.local.i = i
            try:
                for s in c["senders"][i]:
                    perform(p, s)
            except BaseException as ex:           # noqa
                errs.append(type(ex).__name__)
            finally:
                with g.cv:
                    g.state[i] = "done"
                    g.cv.notify_all()
        ths = [threading.Thread(target=sender, args=(i,), daemon=True) for i in range(n)]
        for t in ths:
            t.start()
        try:
            for i in c["sched"]:
                if 0 <= i < n:
                    g.step(i)
            for i in range(n):
                while g.step(i):
                    pass
        finally:
            with g.cv:
                g.abort = True
                g.cv.notify_all()
            for t in ths:
                t.join(TMO)
        if errs:
            return ["raise", errs[0]]
        return {"ops": g.log}

    # ---------------- model ----------------
    @staticmethod
    def loop_sends(c):
        """the sends of a loop case in canonical order: per incoming message its handler's sends, then
        the reply to it"""
        out = []
        for i, m in enumerate(c["msgs"]):
            out.extend(m["sends"])
            if m["kind"] != "nsync":
                out.append({"t": "resp", "id": S("in-%d" % i), "result": m["result"]})
        return out

    def model_input(self, c):
        k = c["k"]
        if k == "escape":
            return "escape " + tok_str([c["cp"]])
        if k == "oracle-decode":
            return "decode " + tok_str(list(bytes.fromhex(c["stream"])))
        if k == "oracle-loads":
            try:
                return "loads " + tok_str([ord(ch) for ch in bytes.fromhex(c["body"]).decode("utf-8", "strict")])
            except UnicodeDecodeError:
                return "loads 1 0"
        if k == "oracle-roundtrip":
            return "roundtrip " + tok_str(c["s"])
        if k == "loop":
            return "case 2 1 " + tok_sends(self.loop_sends(c))
        if k == "multi":
            per = [[plain_send(s_, e["conv"]) for i, s_ in c["ops"] if i == q] for q, e in enumerate(c["eps"])]
            return f"sched 1 1 {len(per)} " + " ".join(tok_sends(ss) for ss in per) + " 0"
        if k == "session":
            return f"session {len(c['ops'])} " + " ".join(
                f"0 {WR[o['w']]} {1 if o['h'] else 0}" if o["op"] == "set" else "1 " + tok_send(o["send"]) for o in c["ops"])
        if k not in ("case", "sched"):
            return "dumps 0"
        cfg = f"{WR[c['w']]} {1 if c['h'] else 0}"
        if c["k"] == "case":
            return f"case {cfg} {tok_sends(c['sends'])}"
        return (f"sched {cfg} {len(c['senders'])} " + " ".join(tok_sends(ss) for ss in c["senders"]) +
                f" {len(c['sched'])} " + " ".join(map(str, c["sched"])))

    def model_output(self, c, t):
        if t and t[0] == "DRIVER-ERROR":
            raise RuntimeError("driver: " + " ".join(t[:20]))
        k = c["k"]
        hx = lambda h: "" if h == "-" else h
        if k == "escape":
            return {"M": hx(t[0]), "S": None, "guard": True}
        if k == "oracle-decode":
            return {"M": None if t[0] == "0" else [hx(h) for h in t[2:]], "S": None, "guard": True}
        if k == "oracle-loads":
            return {"M": None if t[0] == "0" else hx(t[1]), "S": None, "guard": True}
        if k == "oracle-roundtrip":
            return {"M": t[1] == "1", "S": None, "guard": True}
        if k not in ("case", "sched", "loop", "session", "multi"):
            return {"M": "ok", "S": "ok", "guard": True}
        it = iter(t)
        nxt = lambda: next(it)
        def hexs():
            h = nxt()
            return "" if h == "-" else h
        def op():
            return ["w", hexs()] if nxt() == "0" else ["f"]
        def expects():
            return [[int(nxt()), hexs()] for _ in range(int(nxt()))]
        guard = nxt() == "1"
        if c["k"] == "session":
            per = [[op() for _ in range(int(nxt()))] for _ in range(int(nxt()))]
            ws = [{"h": nxt() == "1", "t": nxt() == "1", "expect": expects()} for _ in range(int(nxt()))]
            if nxt() != "1":
                raise RuntimeError("model self-check failed (session)")
            kinds = [o["w"] for o in c["ops"] if o["op"] == "set"]
            for w_, kd in zip(ws, kinds):
                w_["flush"] = kd == "stdout"
            return {"M": {"writers": per}, "S": {"writers": ws} if guard else None, "guard": guard, "klass": None}
        if c["k"] == "loop":
            per = [[op() for _ in range(int(nxt()))] for _ in range(int(nxt()))]
            exp = expects()
            if nxt() != "1" or not guard or len(exp) != len(per):
                raise RuntimeError("loop case outside the guard / model self-check failed")
            hsends, replies, groups, q = [], [], [], 0
            for i, m in enumerate(c["msgs"]):
                g = []
                for k_ in range(len(m["sends"])):
                    hsends.append([i, k_, per[q], 0]); g.append(exp[q]); q += 1
                if m["kind"] != "nsync":
                    replies.append(per[q]); g.append(exp[q]); q += 1
                groups.append(g)
            M = {"hsends": hsends, "replies": sorted(replies), "read_pending": 0, "end_pending": 0}
            return {"M": M, "S": {"groups": groups}, "guard": True, "klass": None}
        if c["k"] == "multi":
            per = [[] for _ in c["eps"]]
            for _ in range(int(nxt())):
                i = int(nxt())
                per[i].append(op())
            exp = [expects() for _ in range(int(nxt()))]
            if nxt() != "1":
                raise RuntimeError("model self-check failed (multi)")
            return {"M": {"eps": per}, "S": {"eps": exp} if guard else None, "guard": guard, "klass": None}
        if c["k"] == "case":
            M = {"sends": [[op() for _ in range(int(nxt()))] for _ in range(int(nxt()))]}
            exp = expects()
        else:
            ops = []
            for _ in range(int(nxt())):
                i = int(nxt())
                ops.append([i] + op())
            M = {"ops": ops}
            exp = [expects() for _ in range(int(nxt()))]
        selfcheck = nxt() == "1"
        if not selfcheck:
            raise RuntimeError("model self-check failed (spec_decode / loads on the model's own stream)")
        if not guard:
            return {"M": M, "S": None, "guard": False, "klass": None}
        return {"M": M, "S": {"expect": exp, "flush": c["w"] == "stdout"}, "guard": True, "klass": None}

    # ---------------- impl |= S ----------------
    @staticmethod
    def match_expect(body, e):
        kind, h = e
        try:
            got = unordered(py_loads(body))
            if kind == 0:
                return got == unordered(py_loads(bytes.fromhex(h)))
            want_id = unordered(py_loads(bytes.fromhex(h)))
            if got[0] != "obj":
                return False
            d = dict(got[1])
            key = lambda s: tuple(map(ord, s))
            err = d.get(key("error"))
            return (d.get(key("jsonrpc")) == ("str", key("2.0")) and d.get(key("id")) == want_id
                    and key("result") not in d and err is not None and err[0] == "obj"
                    and dict(err[1]).get(key("code")) == ("int", -32603)
                    and dict(err[1]).get(key("message"), ("x",))[0] == "str")
        except _Bad:
            return False

    def satisfies(self, c, impl, S):
        if c["k"] == "multi":
            # every instance's stream decodes to the messages IT sent, as ITS converter renders them
            if not isinstance(impl, dict) or len(impl["eps"]) != len(S["eps"]):
                return False
            for ops, exp in zip(impl["eps"], S["eps"]):
                bodies = py_decode(b"".join(bytes.fromhex(o[1]) for o in ops if o[0] == "w"))
                if bodies is None or len(bodies) != len(exp):
                    return False
                if not all(self.match_expect(b, e) for b, e in zip(bodies, exp)):
                    return False
            return True
        if c["k"] == "session":
            if not isinstance(impl, dict) or len(impl["writers"]) != len(S["writers"]):
                return False
            for ops, w in zip(impl["writers"], S["writers"]):
                if not w["t"]:
                    continue
                if w["flush"] and [o[0] for o in ops] != ["w", "f"] * (len(ops) // 2):
                    return False
                chunks = [bytes.fromhex(o[1]) for o in ops if o[0] == "w"]
                # headers on: the writer's whole byte stream is a concatenation of complete frames;
                # headers off: every write call carries exactly one whole body
                bodies = py_decode(b"".join(chunks)) if w["h"] else chunks
                if bodies is None or len(bodies) != len(w["expect"]):
                    return False
                if not all(self.match_expect(b, e) for b, e in zip(bodies, w["expect"])):
                    return False
            return True
        if c["k"] == "loop":
            if not isinstance(impl, dict):
                return False
            # (v) in context: when a sending call made inside a handler returns, the sender's bytes are
            # flushed; when the loop goes back to reading and at the end nothing is left buffered
            if any(h[3] != 0 for h in impl["hsends"]) or impl["read_pending"] != 0 or impl["end_pending"] != 0:
                return False
            bodies = py_decode(bytes.fromhex(impl["stream"]))
            if bodies is None:
                return False
            flat = [e for g in S["groups"] for e in g]
            def cls(b):
                for j, e in enumerate(flat):
                    if self.match_expect(b, e):
                        return min(q for q, f in enumerate(flat) if f == e)
                return -1
            seq = [cls(b) for b in bodies]
            if -1 in seq:
                return False
            lists = [[min(q for q, f in enumerate(flat) if f == e) for e in g] for g in S["groups"]]
            return is_merge(tuple(seq), lists)
        if c["k"] not in ("case", "sched"):
            return impl == S
        if not isinstance(impl, dict):
            return False
        if c["k"] == "case":
            ops = [o for per in impl["sends"] for o in per]
            if S["flush"]:
                for per in impl["sends"]:
                    if any(o[0] == "w" for o in per) and per[-1] != ["f"]:
                        return False          # the sending call returned with unflushed bytes
            stream = b"".join(bytes.fromhex(o[1]) for o in ops if o[0] == "w")
            bodies = py_decode(stream)
            if bodies is None or len(bodies) != len(S["expect"]):
                return False
            return all(self.match_expect(b, e) for b, e in zip(bodies, S["expect"]))
        ops = impl["ops"]
        n = len(c["senders"])
        if S["flush"]:
            for i in range(n):
                mine = [o[1] for o in ops if o[0] == i]
                pending = False
                for k in mine:
                    if k == "w":
                        if pending:
                            return False      # a second frame written before the first was flushed
                        pending = True
                    else:
                        pending = False
                if pending:
                    return False
        stream = b"".join(bytes.fromhex(o[2]) for o in ops if o[1] == "w")
        bodies = py_decode(stream)
        if bodies is None:
            return False
        # every decoded body must be one of the expected messages, in an order that is a merge of
        # the senders' own orders
        exp = S["expect"]
        flat = [e for es in exp for e in es]
        def cls(b):
            for k, e in enumerate(flat):
                if self.match_expect(b, e):
                    return min(j for j, f in enumerate(flat) if f == e)
            return -1
        seq = [cls(b) for b in bodies]
        if -1 in seq:
            return False
        lists = [[min(j for j, f in enumerate(flat) if f == e) for e in es] for es in exp]
        return is_merge(tuple(seq), lists)

    def same(self, c, impl, M):
        if c["k"] == "loop" and isinstance(impl, dict):
            return {k: v for k, v in impl.items() if k != "stream"} == M
        return impl == M

    def nontrivial(self, c):
        if c["k"] == "multi":
            return len({e["conv"] for e in c["eps"]}) >= 2
        if c["k"] == "session":
            first = next((i for i, o in enumerate(c["ops"]) if o["op"] == "set"), len(c["ops"]))
            return first > 0 or sum(1 for o in c["ops"] if o["op"] == "set") >= 2
        if c["k"] == "loop":
            return any(m["sends"] for m in c["msgs"])
        if c["k"] not in ("case", "sched"):
            return True
        if c["k"] == "sched":
            return len(c["senders"]) >= 2
        for s in all_sends(c):
            for st in send_strings(s):
                if any(x >= 0x7F or x < 0x20 or x in (0x22, 0x5C) for x in st):
                    return True
        return False

    # ---------------- shrinking / search ----------------
    def shrink(self, c):
        def shrink_tree(t):
            if isinstance(t, list):
                for i in range(len(t)):
                    yield t[:i] + t[i + 1:]
                for i in range(len(t)):
                    for u in shrink_tree(t[i]):
                        yield t[:i] + [u] + t[i + 1:]
            elif isinstance(t, dict):
                if "s" in t:
                    s = t["s"]
                    if len(s) > 8:
                        yield {"s": s[:len(s) // 2]}
                        yield {"s": s[len(s) // 2:]}
                    elif len(s) > 0:
                        for i in range(len(s)):
                            yield {"s": s[:i] + s[i + 1:]}
                elif "o" in t:
                    ms = t["o"]
                    for i in range(len(ms)):
                        yield {"o": ms[:i] + ms[i + 1:]}
                    for i in range(len(ms)):
                        for u in shrink_tree(ms[i][1]):
                            yield {"o": ms[:i] + [[ms[i][0], u]] + ms[i + 1:]}
                else:
                    yield None
            elif isinstance(t, int) and not isinstance(t, bool) and t not in (0, 1):
                yield 1
        def shrink_send(s):
            for f in ("result", "params", "data"):
                if f in s and s[f] is not None:
                    for u in shrink_tree(s[f]):
                        d = dict(s); d[f] = u
                        yield d
            for f in ("message", "method"):
                if f in s and s[f]:
                    for u in shrink_tree({"s": s[f]}):
                        d = dict(s); d[f] = u["s"]
                        yield d
            if "id" in s and s["id"] != 1:
                d = dict(s); d["id"] = 1
                yield d
        if c["k"] in ("session", "multi"):
            for i in range(len(c["ops"])):
                d = dict(c); d["ops"] = c["ops"][:i] + c["ops"][i + 1:]
                yield d
            return
        if c["k"] == "loop":
            ms = c["msgs"]
            for i in range(len(ms)):
                if len(ms) > 1 and not (ms[i]["kind"] == "hold" and any(m["kind"] == "thread" for m in ms)):
                    d = dict(c); d["msgs"] = ms[:i] + ms[i + 1:]
                    yield d
            for i in range(len(ms)):
                for k_ in range(len(ms[i]["sends"])):
                    if len(ms[i]["sends"]) > 1:
                        m2 = dict(ms[i]); m2["sends"] = ms[i]["sends"][:k_] + ms[i]["sends"][k_ + 1:]
                        d = dict(c); d["msgs"] = ms[:i] + [m2] + ms[i + 1:]
                        yield d
            return
        if c["k"] not in ("case", "sched"):
            return
        if c["k"] == "case":
            ss = c["sends"]
            if len(ss) > 1:
                for i in range(len(ss)):
                    d = dict(c); d["sends"] = ss[:i] + ss[i + 1:]
                    yield d
            for i in range(len(ss)):
                for u in shrink_send(ss[i]):
                    d = dict(c); d["sends"] = ss[:i] + [u] + ss[i + 1:]
                    yield d
        else:
            sn = c["senders"]
            if len(sn) > 2:
                for i in range(len(sn)):
                    d = dict(c); d["senders"] = sn[:i] + sn[i + 1:]
                    d["sched"] = [x - (1 if x > i else 0) for x in c["sched"] if x != i]
                    yield d
            for i in range(len(sn)):
                if len(sn[i]) > 1:
                    d = dict(c); d["senders"] = sn[:i] + [sn[i][:-1]] + sn[i + 1:]
                    yield d
            sc = c["sched"]
            for i in range(len(sc)):
                d = dict(c); d["sched"] = sc[:i] + sc[i + 1:]
                yield d
            for i in range(len(sn)):
                for q in range(len(sn[i])):
                    for u in shrink_send(sn[i][q]):
                        d = dict(c); d["senders"] = sn[:i] + [sn[i][:q] + [u] + sn[i][q + 1:]] + sn[i + 1:]
                        yield d

    def search(self, chk):
        """The tie or a proof broke: look for an input on which the implementation fails S.  The
        bounded scope: every boundary string x the four message kinds x three writers, and every
        schedule of two concurrent senders at the granularity of one transport call (the gating
        writer: a frame emitted in more than one call is torn by one of these schedules)."""
        cases = (self.multi_scenarios() + self.session_scenarios() + self.loop_scenarios() + self.boundary_cases() + self.sched_scope()
                 + self.big_scheds())
        res = core.evaluate(self, chk, cases)
        return [r for r in res if r["verdict"] == "violation"][:1]

    # ---------------- runtime clauses and oracle cross-checks ----------------
    def extra_checks(self, chk):
        logging.disable(logging.CRITICAL)
        viol = []
        cov = {}
        t0 = time.time()
        viol += self.sweep_escape(chk, cov)
        viol += self.cross_check_oracles(chk, cov)
        cov["oracle_checks_s"] = round(time.time() - t0, 2)
        t0 = time.time()
        viol += self.pipe_stress(chk, cov)
        cov["pipe_stress_s"] = round(time.time() - t0, 2)
        t0 = time.time()
        viol += self.nonblocking_entries(chk, cov)
        cov["nonblocking_entries_s"] = round(time.time() - t0, 2)
        if not chk.quick:
            t0 = time.time()
            viol += self.tcp_stress(chk, cov)
            cov["tcp_stress_s"] = round(time.time() - t0, 2)
        self.extra_coverage = {"extra": cov}
        return viol

    def sweep_escape(self, chk, cov):
        """Base.Json.escape / dumps against json.dumps, code point by code point."""
        if chk.quick:
            cps = set(range(0, 0x900)) | set(range(0xD7F0, 0xE010)) | set(range(0xFFF0, 0x10010)) | \
                  set(range(0x10FFF0, 0x110000)) | {chk.rng.randrange(0x110000) for _ in range(20000)}
            cps = sorted(cps)
        else:
            cps = list(range(0x110000))
        chunks = [cps[i:i + 2048] for i in range(0, len(cps), 2048)]
        outs = core.run_driver("C03", ["escape " + tok_str(ch) for ch in chunks])
        bad = []
        for ch, o in zip(chunks, outs):
            want = json.dumps("".join(map(chr, ch)))[1:-1].encode("ascii")
            got = bytes.fromhex(o[0]) if o and o[0] != "-" else b""
            if got != want:
                # locate the first code point that differs
                for c in ch:
                    o1 = core.run_driver("C03", ["escape " + tok_str([c])])[0]
                    g1 = bytes.fromhex(o1[0])
                    if g1 != json.dumps(chr(c))[1:-1].encode("ascii"):
                        bad.append({"case": {"k": "escape", "cp": c}, "impl": json.dumps(chr(c)), "M": g1.decode(),
                                    "S": None, "verdict": "violation", "suffix": "no-failing-input-found"})
                        break
        cov["escape_code_points_compared"] = len(cps)
        cov["escape_exhaustive"] = not chk.quick
        return bad[:1]

    def cross_check_oracles(self, chk, cov):
        """The Python decoder / reader that judge impl |= S must be the Coq spec_decode / loads:
        compared on well-formed and on mutated streams and bodies (a disagreement is a defect of the
        check itself and fails it)."""
        rng = chk.rng
        streams, bodies = [], []
        hdr = lambda n: b"Content-Length: %d\r\nContent-Type: application/vscode-jsonrpc; charset=utf-8\r\n\r\n" % n
        def rbody():
            v = to_py(self.rtree(rng, 3, special=False))
            return json.dumps(v).encode()
        alts = [b"Content-Length:%d\r\n\r\n", b"content-length: %d\r\n\r\n", b"CONTENT-LENGTH:\t %d\r\nX-Y: z\r\n\r\n",
                b"Content-Length: %d\r\nContent-Length: %d\r\n\r\n", b"Content-Length: %d \r\n\r\n", b"Content-Length: +%d\r\n\r\n",
                b"Content-Type: x\r\n\r\n", b"Content-Length: %d\n\n", b": %d\r\n\r\n", b"Content-Length: %d\r\nbad header\r\n\r\n",
                b"Content-Length: 0%d\r\n\r\n", b"Content-Length: %d\r\nA:\r\n\r\n", b"Content-Length: %d\r\n B: c\r\n\r\n",
                b"Content-Length : %d\r\n\r\n", b"Content-Length: %d\r\r\n\r\n"]
        for _ in range(chk.n(300, 6000)):
            parts = []
            for _ in range(rng.randint(0, 3)):
                b = rng.choice([rbody(), b"", bytes(rng.randrange(256) for _ in range(rng.randint(0, 12))), b"\r\n\r\n"])
                if rng.random() < 0.7:
                    parts.append(hdr(len(b)) + b)
                else:
                    a = rng.choice(alts)
                    n = len(b) + rng.choice([0, 0, 0, 1, -1])
                    parts.append((a % ((max(n, 0),) * a.count(b"%d"))) + b)
            st = b"".join(parts)
            r = rng.random()
            if r < 0.3 and st:
                i = rng.randrange(len(st))
                st = st[:i] + st[i + 1:]
            elif r < 0.45 and st:
                i = rng.randrange(len(st))
                st = st[:i] + bytes([rng.randrange(256)]) + st[i:]
            elif r < 0.55:
                st = st[:rng.randint(0, len(st))]
            streams.append(st)
        muts = [b'{"a":1}', b'{"a" : [1 , 2]}', b' [ ] ', b'{}', b'[1,]', b'{"a":1,}', b'01', b'-0', b'1.0', b'1e3', b'-', b'"\\u12"',
                b'"\\ud83d\\ude0b"', b'"\\ud83d"', b'"\\ud83dx"', b'"\\ud83d\\u0041"', b'"\\uD83D\\uDE0B"', b'"\\x"', b'"a\nb"', b'nul', b'truee',
                b'[1 2]', b'{"a" 1}', b'{1:2}', b'"\xc3\xa9"', b'"\xff"', b'"\xed\xa0\x80"', b'\t\n\r 7 \n', b'', b' ', b'[[[[[[1]]]]]]', b'"\\/"',
                b'{"a":{"a":{"b":[]}}}', b'"\\udc00\\ud800"', b'-12', b'--1', b'1 1', b'"a" "b"', b'[null,true,false]', b'"\x7f"', b'"\x1f"']
        for _ in range(chk.n(300, 6000)):
            b = rbody()
            r = rng.random()
            if r < 0.35 and b:
                i = rng.randrange(len(b))
                b = b[:i] + b[i + 1:]
            elif r < 0.6:
                i = rng.randint(0, len(b))
                b = b[:i] + rng.choice([b" ", b",", b'"', b"\\", b"]", b"{", b"0", b"-", b"\\u00", b"\xc3\xa9", b"\n"]) + b[i:]
            bodies.append(b)
        bodies += muts
        out = []
        douts = core.run_driver("C03", ["decode " + tok_str(list(st)) for st in streams])
        nd = 0
        for st, o in zip(streams, douts):
            want = py_decode(st)
            got = None if o[0] == "0" else [bytes.fromhex(h) if h != "-" else b"" for h in o[2:]]
            if want is not None:
                nd += 1
            if want != got:
                out.append({"case": {"k": "oracle-decode", "stream": st.hex()}, "impl": None if want is None else [w.hex() for w in want],
                            "M": None if got is None else [g.hex() for g in got], "S": None, "verdict": "violation",
                            "suffix": "no-failing-input-found"})
                break
        # Coq loads works on code points: bodies that are not valid UTF-8 are rejected by the reader before
        louts_in, lidx = [], []
        for k, b in enumerate(bodies):
            try:
                cps = [ord(ch) for ch in b.decode("utf-8", "strict")]
            except UnicodeDecodeError:
                continue
            lidx.append(k)
            louts_in.append("loads " + tok_str(cps))
        louts = core.run_driver("C03", louts_in) if louts_in else []
        nl = 0
        for k, o in zip(lidx, louts):
            b = bodies[k]
            try:
                t = py_loads(b)
                want = pairs_dumps(t).encode("ascii")
                nl += 1
            except _Bad:
                want = None
            got = None if o[0] == "0" else (bytes.fromhex(o[1]) if o[1] != "-" else b"")
            if want != got:
                out.append({"case": {"k": "oracle-loads", "body": b.hex()}, "impl": None if want is None else want.hex(),
                            "M": None if got is None else got.hex(), "S": None, "verdict": "violation",
                            "suffix": "no-failing-input-found"})
                break
        # unescape . escape = id exactly on the pair-free strings
        strs = [self.rstring(rng, 10, pairs=True) for _ in range(chk.n(500, 10000))]
        routs = core.run_driver("C03", ["roundtrip " + tok_str(s) for s in strs])
        for s_, o in zip(strs, routs):
            pf = not any(0xD800 <= a <= 0xDBFF and 0xDC00 <= b <= 0xDFFF for a, b in zip(s_, s_[1:]))
            py_rt = json.loads(json.dumps("".join(map(chr, s_)))) == "".join(map(chr, s_))
            if (o[0] == "1") != pf or (o[1] == "1") != py_rt or (pf and not py_rt):
                out.append({"case": {"k": "oracle-roundtrip", "s": s_}, "impl": [pf, py_rt], "M": o, "S": None,
                            "verdict": "violation", "suffix": "no-failing-input-found"})
                break
        cov.update({"oracle_streams": len(streams), "oracle_streams_accepted": nd, "oracle_bodies": len(louts_in),
                    "oracle_bodies_accepted": nl, "oracle_roundtrip_strings": len(strs)})
        return out

    def pipe_stress(self, chk, cov):
        """Real threads, the real StdoutWriter over a BufferedWriter on a real os.pipe, payloads of
        several pipe buffers; the far end is decoded by the strict decoder: whole frames only, every
        sender's messages complete and in its own order.  The verdict does not depend on timing."""
        from pygls.io_ import StdoutWriter
        from pygls.lsp.server import LanguageServer
        nthreads = 8
        per = chk.n(3, 12)
        size = chk.n(160 * 1024, 300 * 1024)
        p = LanguageServer("c03-stress", "v1").protocol
        r, w = os.pipe()
        wf = os.fdopen(w, "wb")
        p.set_writer(StdoutWriter(wf))
        got = bytearray()
        def reader():
            while True:
                b = os.read(r, 1 << 16)
                if not b:
                    return
                got.extend(b)
        rt = threading.Thread(target=reader, daemon=True)
        rt.start()
        errs = []
        send_response = priv.send_response(p)
        pads = ["x", "\u00e9", "\u20ac", "\U0001F60B", "\"\\\n", "\x7f\x00", "\ud800", "mixed \u00e9\U0001F60B\"\n"]
        def pad(i, k):
            unit = pads[(i + k) % len(pads)]
            body_per_unit = len(json.dumps(unit)) - 2
            return unit * max(1, (size if k % 2 == 0 else 900) // body_per_unit)
        def sender(i):
            try:
                for k in range(per):
                    kind = (i + k) % 3
                    payload = {"sender": i, "seq": k, "pad": pad(i, k)}
                    if kind == 0:
                        p.notify("stress/n", payload)
                    elif kind == 1:
                        send_response(1000 * i + k, payload)
                    else:
                        p.send_request("stress/r", payload, msg_id=f"q{i}-{k}")
            except BaseException as ex:   # noqa
                errs.append(repr(ex))
        async def loop_sender(i):
            for k in range(per):
                p.notify("stress/loop", {"sender": i, "seq": k, "pad": pad(i, k)})
                await asyncio.sleep(0)
        def loop_thread():
            loop = asyncio.new_event_loop()
            try:
                async def main():
                    await asyncio.wait_for(asyncio.gather(loop_sender(nthreads), loop_sender(nthreads + 1)), 120)
                loop.run_until_complete(main())
            except BaseException as ex:   # noqa
                errs.append(repr(ex))
            finally:
                loop.close()
        ths = [threading.Thread(target=sender, args=(i,), daemon=True) for i in range(nthreads)]
        ths.append(threading.Thread(target=loop_thread, daemon=True))
        for t in ths:
            t.start()
        hung = False
        deadline = time.time() + 120
        for t in ths:
            t.join(max(0.1, deadline - time.time()))
            hung = hung or t.is_alive()
        try:
            wf.close()
        except Exception as ex:
            errs.append(repr(ex))
        rt.join(30)
        hung = hung or rt.is_alive()
        try:
            os.close(r)
        except OSError:
            pass
        nsend = nthreads + 2
        rec = {"case": {"k": "pipe-stress", "threads": nthreads, "loop_coroutines": 2, "messages_each": per, "payload_bytes": size},
               "S": "whole frames; per-sender order", "verdict": "violation"}
        cov.update({"stress_senders": nsend, "stress_messages": nsend * per, "stress_bytes": len(got), "stress_payload_bytes": size})
        if hung or errs:
            rec["impl"] = {"hung": hung, "errors": errs[:3]}
            return [rec]
        bodies = py_decode(bytes(got))
        if bodies is None:
            rec["impl"] = {"torn": True, "stream_head": bytes(got[:300]).hex()}
            return [rec]
        seqs = {}
        try:
            for b in bodies:
                t = ordered_py(py_loads(b))
                pl = t.get("params", t.get("result"))
                seqs.setdefault(pl["sender"], []).append(pl["seq"])
                if pl["pad"] != pad(pl["sender"], pl["seq"]):
                    raise _Bad("payload changed")
        except (_Bad, KeyError, TypeError, AttributeError) as ex:
            rec["impl"] = {"bad_body": repr(ex)}
            return [rec]
        if sorted(seqs) != list(range(nsend)) or any(v != list(range(per)) for v in seqs.values()):
            rec["impl"] = {"order": {str(k): v for k, v in seqs.items()}}
            return [rec]
        cov["stress_frames_decoded"] = len(bodies)
        return []

    CHILD = r"""
import sys, json
i, o = sys.stdin.buffer, sys.stdout.buffer
while True:
    n = None
    while True:
        line = i.readline()
        if not line:
            sys.exit(0)
        if line == b"\r\n":
            break
        k, _, v = line.partition(b":")
        if k.lower() == b"content-length":
            n = int(v)
    body = i.read(n)
    m = json.loads(body)
    if "id" in m and "method" in m:
        r = json.dumps({"jsonrpc": "2.0", "id": m["id"], "result": {"cl": n, "got": len(body), "pad": len(m["params"]["pad"])}}).encode()
        o.write(b"Content-Length: %d\r\n\r\n" % len(r) + r)
        o.flush()
"""

    def nonblocking_entries(self, chk, cov):
        """The writers pygls installs that are NOT blocking: the asyncio StreamWriter of start_tcp and
        the pipe StreamWriter JsonRPCClient.start_io installs for the child's stdin.  C03's flush clause
        speaks of blocking transports; what is promised here is weaker and is what is judged: a frame
        handed to such a writer on the loop thread goes out WHOLE, in order, and WITHOUT needing any
        further traffic to push it (the peer gets it while the sender sends nothing else)."""
        import socket, sys
        from pygls.lsp.server import LanguageServer
        from pygls.client import JsonRPCClient
        out = []
        # ---- JsonRPCClient.start_io: one request, nothing else; the child answers only a complete frame
        async def client_run():
            cl = JsonRPCClient()
            await cl.start_io(sys.executable, "-c", self.CHILD)
            res = []
            try:
                for n in (3, 200 * 1024):
                    pad = "\u00e9" * n
                    fut = cl.protocol.send_request_async("x/echo", {"pad": pad})
                    r = await asyncio.wait_for(fut, TMO)
                    res.append([r.cl, r.got, r.pad, n])
            finally:
                cl.protocol.writer.close()        # EOF on the child's stdin: it exits, stop() can return
                await asyncio.wait_for(cl.stop(), TMO)
            return res
        loop = asyncio.new_event_loop()
        try:
            res = loop.run_until_complete(asyncio.wait_for(client_run(), 3 * TMO))
            ok = all(cl_ == got and pad == n for cl_, got, pad, n in res) and len(res) == 2
            impl = res
        except BaseException as ex:      # noqa
            ok, impl = False, ["raise", type(ex).__name__]
        finally:
            asyncio.set_event_loop(None)
            loop.close()
        cov["client_stdio_requests_delivered"] = ok
        if not ok:
            out.append({"case": {"k": "client-start-io"}, "impl": impl, "verdict": "violation",
                        "S": "a request sent by the client reaches the child complete, with no further traffic"})
        # ---- start_tcp: a sync handler sends two notifications and returns; nothing else is sent
        srv = LanguageServer("c03-tcp-entry", "v1")
        srv.feature("t/sync")(lambda params: [srv.protocol.notify("t/progress", {"seq": k_, "pad": "\u00e9" * 2000}) for k_ in range(2)] and "done")
        sk = socket.socket(); sk.bind(("127.0.0.1", 0)); port = sk.getsockname()[1]; sk.close()
        th = threading.Thread(target=lambda: srv.start_tcp("127.0.0.1", port), daemon=True)
        th.start()
        got, impl = b"", None
        try:
            end = time.time() + TMO
            while True:
                try:
                    cs = socket.create_connection(("127.0.0.1", port), timeout=2)
                    break
                except OSError:
                    if time.time() > end:
                        raise
                    time.sleep(0.02)
            cs.settimeout(TMO)
            body = json.dumps({"jsonrpc": "2.0", "id": 1, "method": "t/sync", "params": {}}).encode()
            cs.sendall(b"Content-Length: %d\r\n\r\n" % len(body) + body)
            bodies = None
            while time.time() < end:
                b = cs.recv(1 << 16)
                if not b:
                    break
                got += b
                bodies = py_decode(got)
                if bodies is not None and len(bodies) >= 3:
                    break
            cs.close()
            kinds = []
            for b in bodies or []:
                t = ordered_py(py_loads(b))
                kinds.append(["n", t["params"]["seq"]] if "method" in t else ["r", t.get("result")])
            impl = kinds
            ok = kinds == [["n", 0], ["n", 1], ["r", "done"]]
        except BaseException as ex:      # noqa
            ok, impl = False, ["raise", type(ex).__name__, got[:200].hex()]
        th.join(5)
        cov["tcp_entry_frames_in_order"] = ok
        if not ok:
            out.append({"case": {"k": "start-tcp-entry"}, "impl": impl, "verdict": "violation",
                        "S": "whole frames, the handler's notifications before its reply, no further traffic needed"})
        return out

    def tcp_stress(self, chk, cov):
        """The configuration the atomicity assumption does NOT cover: an asyncio StreamWriter (as
        start_tcp sets it) written to from pool threads with frames larger than the socket buffer
        and a slow reader.  Judged by the spec decoder when every byte arrived; otherwise noted."""
        import socket
        from pygls.lsp.server import LanguageServer
        runs, torn, incomplete = 0, 0, 0
        out = []
        for nthreads, per, size in ((6, 6, 300 * 1024), (12, 10, 100 * 1024)):
            p = LanguageServer("c03-tcp", "v1").protocol
            loop = asyncio.new_event_loop()
            got = bytearray()
            done = threading.Event()
            port = []
            errs = []
            def sender(i):
                try:
                    for k in range(per):
                        p.notify("s/n", {"sender": i, "seq": k, "pad": "x" * size})
                except BaseException as ex:    # noqa
                    errs.append(repr(ex))
            async def handler(reader, writer):
                p.set_writer(writer)
                ths = [threading.Thread(target=sender, args=(i,), daemon=True) for i in range(nthreads)]
                for t in ths:
                    t.start()
                end = time.time() + 60
                while any(t.is_alive() for t in ths) and time.time() < end:
                    await asyncio.sleep(0.01)
                try:
                    await asyncio.wait_for(writer.drain(), 30)
                except Exception as ex:
                    errs.append(repr(ex))
                writer.close()
            async def main():
                server = await asyncio.start_server(handler, "127.0.0.1", 0)
                port.append(server.sockets[0].getsockname()[1])
                async with server:
                    await asyncio.wait_for(asyncio.get_running_loop().run_in_executor(None, done.wait), 120)
            def client():
                try:
                    end = time.time() + 30
                    while not port and time.time() < end:
                        time.sleep(0.01)
                    s_ = socket.create_connection(("127.0.0.1", port[0]), timeout=30)
                    s_.settimeout(30)
                    while True:
                        b = s_.recv(1 << 16)
                        if not b:
                            break
                        got.extend(b)
                        time.sleep(0.0005)
                    s_.close()
                except Exception as ex:
                    errs.append(repr(ex))
                finally:
                    done.set()
            ct = threading.Thread(target=client, daemon=True)
            ct.start()
            try:
                loop.run_until_complete(main())
            except Exception as ex:
                errs.append(repr(ex))
            finally:
                done.set()
                ct.join(40)
                loop.close()
            runs += 1
            one = len(json.dumps({"method": "s/n", "jsonrpc": "2.0", "params": {"sender": 0, "seq": 0, "pad": "x" * size}}))
            bodies = py_decode(bytes(got))
            complete = bodies is not None and len(bodies) == nthreads * per
            if bodies is None and len(got) >= nthreads * per * one:
                torn += 1
                rec = {"case": {"k": "tcp-thread-stress", "threads": nthreads, "messages_each": per, "payload_bytes": size},
                       "impl": {"torn": True, "bytes": len(got), "errors": errs[:3]},
                       "S": "whole frames", "verdict": "violation"}
                known = [k for k in core.load_known() if k.get("property") == "C03" and k.get("status") == "known"
                         and k.get("class") == "F-C03-streamwriter-from-pool-thread"]
                if known:
                    # the recorded finding, reproduced (it is a race: it shows up in a minority of runs)
                    rec["verdict"] = "known:F-C03-streamwriter-from-pool-thread"
                    path = core.write_replay(self, rec)
                    print(f"KNOWN-FINDING: property=C03 F-C03-streamwriter-from-pool-thread: {known[0]['what']} (replay={path})")
                    cov["known_findings_reproduced_by_stress"] = ["F-C03-streamwriter-from-pool-thread"]
                else:
                    out.append(rec)
            elif not complete:
                incomplete += 1
                chk.notes.append(f"tcp stress inconclusive: {len(got)} bytes, errors {errs[:2]}")
            else:
                seqs = {}
                for b in bodies:
                    pl = ordered_py(py_loads(b))["params"]
                    seqs.setdefault(pl["sender"], []).append(pl["seq"])
                if any(v != list(range(per)) for v in seqs.values()):
                    out.append({"case": {"k": "tcp-thread-stress", "threads": nthreads}, "impl": {"order": {str(k): v for k, v in seqs.items()}},
                                "S": "per-sender order", "verdict": "violation"})
        cov.update({"tcp_stress_runs": runs, "tcp_stress_torn": torn, "tcp_stress_incomplete": incomplete})
        return out[:1]

    def distribution(self, cases):
        d = {}
        for c in cases:
            if c["k"] not in ("case", "sched", "loop", "session", "multi"):
                continue
            if c["k"] == "multi":
                key = "multi/" + "+".join(e["conv"] for e in c["eps"])
            elif c["k"] == "session":
                key = f"session/{c['fl']}"
                for o in c["ops"]:
                    if o["op"] == "set":
                        kk = f"set_writer/{o['w']}/{'hdr' if o['h'] else 'nohdr'}"
                        d[kk] = d.get(kk, 0) + 1
            elif c["k"] == "loop":
                key = f"loop/{c['fl']}/{c['loop']}"
                for m in c["msgs"]:
                    d["handler/" + m["kind"]] = d.get("handler/" + m["kind"], 0) + 1
            else:
                key = f"{c['k']}/{c['fl']}/{c['w']}/{'hdr' if c['h'] else 'nohdr'}"
            d[key] = d.get(key, 0) + 1
            for s in all_sends(c):
                d["send/" + s["t"]] = d.get("send/" + s["t"], 0) + 1
                for st in send_strings(s):
                    for x in st:
                        k = ("ascii" if 0x20 <= x < 0x7F and x not in (0x22, 0x5C) else "quote" if x in (0x22, 0x5C)
                             else "ctrl" if x < 0x20 else "del" if x == 0x7F else "u0080" if x < 0x800
                             else "sur" if 0xD800 <= x <= 0xDFFF else "u0800" if x < 0x10000 else "astral")
                        d["char/" + k] = d.get("char/" + k, 0) + 1
        return d


PROPERTY = C03

# Link theorem Wire.v <-> Endpoint.v (coq/Proofs/LinkWireEndpoint.v): the byte stream of every endpoint
# schedule is a concatenation of whole frames decoding to `out` (blocking / awaitable / failing writer).
C03.obligations = list(C03.obligations) + ["Proofs.LinkWireEndpoint::" + n for n in (
    "link_stream_is_wire_model", "stream_of_decodes", "link_blocking", "link_awaitable_only_write_step",
    "link_awaitable_write_step", "link_awaitable", "link_failing_writer")] + ["C03_along_endpoint_schedules"]
C03.coq_targets = list(C03.coq_targets) + ["Proofs/LinkWireEndpoint.vo"]


# ---------------------------------------------------------------------------------------------
# Second tie for the body / Content-Length clause (appended; harness/gen_ast.py, coq/Base/PyMini.v,
# Proofs/AstSendEquiv.v): the SOURCE TEXT of JsonRPCProtocol._send_data and of StdoutWriter.write is translated on
# every run by the fail-closed AST translator into a deep embedding, and the kernel re-checks that the
# writer.write calls _send_data makes and the value it returns are Model/Wire.v's send_data (header only with
# _include_headers, Content-Length = len(body), ONE write of the utf-8 encoding, a report instead of a write when
# json.dumps or the encoding raises) and that StdoutWriter.write is write-then-flush.  json.dumps (with the
# default= hook), format(int) and inspect.isawaitable are oracles of those theorems.
# Imported late ("Module::theorem") so that a broken translator tie does not hide the other obligations.
import gen_ast as _gen_ast

C03.obligations = list(C03.obligations) + ["Proofs.AstSendEquiv::" + n for n in (
    "ast_send_data_equiv", "ast_stdout_writer_write_equiv", "ast_send_data_example")]
C03.coq_targets = list(C03.coq_targets) + ["Proofs/AstSendEquiv.vo"]
C03.trusted_base = list(C03.trusted_base) + [
    "translator tie: harness/gen_ast.py (Python ast -> PyMini, fail-closed) and the PyMini semantics "
    "coq/Base/PyMini.v (hand-written meaning of the Python subset: try / except .. as, f-strings, str + str, "
    "str.encode('utf-8') strict, truth values; calls on self.writer / self._server / asyncio.ensure_future are "
    "recorded and return normally); json.dumps, format(int), inspect.isawaitable are oracles of those theorems"]
_prev_regenerate_ast = getattr(C03, "regenerate", None)


def _regenerate_ast(self, chk):
    try:
        if _prev_regenerate_ast is not None:
            _prev_regenerate_ast(self, chk)
    finally:
        core.coq_make(["Props/C03.vo", "Extract/ExtractC03.vo"])     # the differential side first
        with core._Lock("coq"):                                      # coq/Gen is shared
            try:
                _gen_ast.gen_send()
                _gen_ast.gen_writer()
            finally:
                core._coq_make(["Proofs/AstSendEquiv.vo"])


C03.regenerate = _regenerate_ast


if __name__ == "__main__":
    import sys
    if "--multi-helper" in sys.argv:
        _multi_helper_main()
