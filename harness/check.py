import argparse, importlib, os, sys
sys.path.insert(0, os.path.dirname(os.path.abspath(__file__)))
import core

if os.environ.get("VERIF_SERIAL"):
    # coverage runs (harness/anchcov.py): run the cases of pooled harnesses in-process
    import multiprocessing as _mp
    class _SerialPool:
        def __init__(self, *a, **k): pass
        def __enter__(self): return self
        def __exit__(self, *a): return False
        def map(self, f, xs, chunksize=None): return [f(x) for x in xs]
        def imap(self, f, xs, chunksize=None): return (f(x) for x in xs)
        imap_unordered = imap
        def starmap(self, f, xs, chunksize=None): return [f(*x) for x in xs]
        def apply(self, f, args=(), kwds=None): return f(*args, **(kwds or {}))
        def close(self): pass
        def join(self): pass
        def terminate(self): pass
    class _Ctx:
        Pool = staticmethod(lambda *a, **k: _SerialPool())
    _mp.get_context = lambda *a, **k: _Ctx()
    import concurrent.futures as _cf
    class _SerialExecutor:
        def __init__(self, *a, **k): pass
        def __enter__(self): return self
        def __exit__(self, *a): return False
        def map(self, f, *xs, **k): return [f(*x) for x in zip(*xs)]
        def submit(self, f, *a, **k):
            fut = _cf.Future()
            try: fut.set_result(f(*a, **k))
            except BaseException as e: fut.set_exception(e)
            return fut
        def shutdown(self, *a, **k): pass
    _cf.ProcessPoolExecutor = _SerialExecutor

def main():
    ap = argparse.ArgumentParser()
    ap.add_argument("prop")
    ap.add_argument("--tier", default=os.environ.get("VERIF_TIER", "quick"))
    ap.add_argument("--seed", type=int, default=int(os.environ.get("VERIF_SEED", "0") or 0))
    ap.add_argument("--replay")
    a = ap.parse_args()
    if a.prop == "lint":
        bad = core.lint()
        print("\n".join(bad) if bad else "lint: clean")
        sys.exit(1 if bad else 0)
    if a.tier not in ("quick", "thorough"):
        a.tier = "quick"
    mod = importlib.import_module(a.prop.lower())
    sys.exit(core.run_check(mod.PROPERTY(), a.tier, a.seed, a.replay))

main()
