import argparse, importlib, os, sys
sys.path.insert(0, os.path.dirname(os.path.abspath(__file__)))
import core

def main():
    ap = argparse.ArgumentParser()
    ap.add_argument("prop")
    ap.add_argument("--tier", default=os.environ.get("VERIF_TIER", "quick"))
    ap.add_argument("--seed", type=int, default=int(os.environ.get("VERIF_SEED", "0") or 0))
    ap.add_argument("--replay")
    a = ap.parse_args()
    if a.prop == "lint":
        bad = core.lint()
        print("\n".join(bad) if bad else "lint: clean")
        sys.exit(1 if bad else 0)
    if a.tier not in ("quick", "thorough"):
        a.tier = "quick"
    mod = importlib.import_module(a.prop.lower())
    sys.exit(core.run_check(mod.PROPERTY(), a.tier, a.seed, a.replay))

main()
