#!/usr/bin/env python3
"""Coordinator tool: move notes/findings_Cxx.json into known_findings.json and add fixed: entries.
   merge_findings.py Cxx [--fixed CLASS COMMIT "what failed" ]..."""
import json, os, sys
ROOT = os.path.dirname(os.path.dirname(os.path.abspath(__file__)))
pid = sys.argv[1]
kf = os.path.join(ROOT, "known_findings.json")
d = json.load(open(kf))
have = {(f["property"], f["class"]) for f in d["findings"]}
nf = os.path.join(ROOT, "notes", f"findings_{pid}.json")
if os.path.exists(nf):
    n = json.load(open(nf)); n = n["findings"] if isinstance(n, dict) else n
    for f in n:
        if (f["property"], f["class"]) not in have:
            d["findings"].append(f); have.add((f["property"], f["class"]))
    os.remove(nf)
args = sys.argv[2:]
while args:
    assert args[0] == "--fixed"; cls, commit, what = args[1:4]; args = args[4:]
    if (pid, cls) not in have:
        d["findings"].append({"property": pid, "class": cls,
                              "status": f"fixed: property={pid} {commit} {what}", "what": what})
json.dump(d, open(kf, "w"), indent=1, ensure_ascii=False)
print("known_findings.json:", len(d["findings"]), "entries")
