#!/usr/bin/env python3
"""Regenerated files of C20: coq/Gen/AstProgress.v, the PyMini translation of the source text of class
Progress in pygls/progress.py (harness/gen_ast.py, fail-closed).  Run by `make setup` and, through
C20.regenerate, on every check."""
import os, sys
sys.path.insert(0, os.path.dirname(os.path.abspath(__file__)))
import gen_ast


def main():
    return gen_ast.gen_progress()


if __name__ == "__main__":
    print("gen_c20:", os.path.relpath(main(), gen_ast.ROOT))
